"""Counterexample stage (DESIGN §0.8).  Runs ONLY after a VIOLATION has already been decided by Verus (it can neither raise nor suppress an
alarm); it tries to turn the failed obligation into a concrete input and to re-execute that input against the real crates.

For the functions registered in RECIPES (pure integer code that Kani's back end decides over the full 64-bit domain without a bound):
  1. the function (and the constants / helpers it uses) is copied VERBATIM from /repo's current source by brace matching - no normalisation;
  2. it is compiled in a dependency-free crate whose only hand-written parts are (a) field-only stubs of the library types it reads
     (plonky2 CircuitConfig / FriConfig) and an `anyhow` stub whose ensure!/bail! return a unit error (message text dropped, as in rule N8),
     (b) one loop-free #[kani::proof] harness over kani::any() that asserts the function's result against the executable transcription of
     the property's policy (the same predicate as the Verus postcondition);
  3. `cargo kani -Z concrete-playback --concrete-playback=print` yields the concrete values;
  4. the values are handed to /verif/replay (which links the REAL crates) and the real function's answer is compared with the policy.
Only when step 4 reproduces the disagreement on the real code is the input written into the replay file and the VIOLATION line printed
without the words no-failing-input-found.
"""
import json, os, re, shutil, subprocess, tempfile

VERIF = os.path.dirname(os.path.dirname(os.path.abspath(__file__)))
REPO = os.environ.get("VERIF_REPO", "/repo")


def grab_item(src, kind, name):
    """verbatim text of a top-level `fn name` / `const name` item (attributes and doc comments not included)"""
    if kind == "const":
        m = re.search(r"^(pub(\([a-z]+\))? )?const %s\s*:[^;]*;" % re.escape(name), src, re.M)
        if not m:
            raise RuntimeError("const %s not found" % name)
        return m.group(0)
    m = re.search(r"^(pub(\([a-z]+\))? )?fn %s\s*[(<]" % re.escape(name), src, re.M)
    if not m:
        raise RuntimeError("fn %s not found" % name)
    i = src.index("{", m.end())
    depth, j = 0, i
    in_str = False
    while j < len(src):
        ch = src[j]
        if in_str:
            if ch == "\\":
                j += 1
            elif ch == '"':
                in_str = False
        elif ch == '"':
            in_str = True
        elif ch == "/" and src[j + 1] == "/":
            j = src.index("\n", j)
            continue
        elif ch == "{":
            depth += 1
        elif ch == "}":
            depth -= 1
            if depth == 0:
                return src[m.start():j + 1]
        j += 1
    raise RuntimeError("unbalanced braces in fn %s" % name)


ANYHOW_STUB = r'''
#[macro_export] macro_rules! __vcex_ensure { ($c:expr $(, $($t:tt)*)?) => { if !($c) { return Err($crate::anyhow::Error); } } }
#[macro_export] macro_rules! __vcex_bail { ($($t:tt)*) => { return Err($crate::anyhow::Error) } }
pub mod anyhow {
    pub struct Error;
    pub type Result<T> = core::result::Result<T, Error>;
    pub use crate::__vcex_ensure as ensure;
    pub use crate::__vcex_bail as bail;
}
#[allow(unused_imports)] use crate::anyhow::{bail, ensure};
'''

CFG_STUB = r'''
pub struct FriConfig { pub rate_bits: usize, pub cap_height: usize, pub num_query_rounds: usize }
pub struct CircuitConfig { pub num_wires: usize, pub num_routed_wires: usize, pub security_bits: usize, pub num_challenges: usize,
                           pub max_quotient_degree_factor: usize, pub fri_config: FriConfig }
'''

# executable transcription of prelude/config.rs cfg_policy (C28's statement); loop-free: q <= 2^rate is only evaluated for rate <= 8
CFG_HARNESS = r'''
fn policy(c: &CircuitConfig) -> bool {
    c.num_challenges > 0 && c.security_bits > 0 && c.fri_config.num_query_rounds > 0
        && c.num_wires >= 135 && 37 <= c.num_routed_wires && c.num_routed_wires <= c.num_wires
        && c.max_quotient_degree_factor >= 7 && c.fri_config.rate_bits <= 8 && c.fri_config.cap_height <= 8
        && c.max_quotient_degree_factor <= (1usize << c.fri_config.rate_bits)
}
#[cfg(kani)] #[kani::proof]
fn vcex_harness() {
    let c = CircuitConfig { num_wires: kani::any(), num_routed_wires: kani::any(), security_bits: kani::any(), num_challenges: kani::any(),
        max_quotient_degree_factor: kani::any(),
        fri_config: FriConfig { rate_bits: kani::any(), cap_height: kani::any(), num_query_rounds: kani::any() } };
    let ok = validate_circuit_config(&c).is_ok();   // a panic / overflow inside is a failure as well ("without panicking")
    assert!(ok == policy(&c));
}
'''
CFG_ORDER = ["num_wires", "num_routed_wires", "security_bits", "num_challenges", "max_quotient_degree_factor", "rate_bits", "cap_height",
             "num_query_rounds"]

COUNT_HARNESS = r'''
#[cfg(kani)] #[kani::proof]
fn vcex_harness() {
    let n: usize = kani::any();
    let ok = validate_proof_count(n, "n").is_ok();
    assert!(ok == (1 <= n && n <= 64));
}
'''

RECIPES = {
    # failed item (selector suffix) -> recipe
    ("common/src/circuit.rs", "validate_circuit_config"): "cfg", ("common/src/circuit.rs", "log2_ceil"): "cfg",
    ("wormhole/inputs/src/lib.rs", "validate_proof_count"): "count",
}
RECIPE_DEF = {
    "cfg": {"file": "common/src/circuit.rs",
            "items": [("const", "MIN_NUM_WIRES"), ("const", "MIN_NUM_ROUTED_WIRES"), ("const", "MIN_MAX_QUOTIENT_DEGREE_FACTOR"),
                      ("const", "MAX_RATE_BITS"), ("const", "MAX_CAP_HEIGHT"), ("fn", "log2_ceil"), ("fn", "validate_circuit_config")],
            "stubs": ANYHOW_STUB + CFG_STUB, "harness": CFG_HARNESS, "order": CFG_ORDER, "replay_kind": "cfg-policy"},
    "count": {"file": "wormhole/inputs/src/lib.rs", "items": [("const", "MAX_PROOF_COUNT"), ("fn", "validate_proof_count")],
              "stubs": ANYHOW_STUB, "harness": COUNT_HARNESS, "order": ["count"], "replay_kind": "proof-count"},
}


def kani_values(out):
    """the concrete values of the kani::any() calls, in call order, from the printed playback test"""
    m = re.search(r"let concrete_vals: Vec<Vec<u8>> = vec!\[(.*?)\];", out, re.S)
    if not m:
        return None
    vals = []
    for v in re.findall(r"vec!\[([0-9,\s]*)\]", m.group(1)):
        bs = [int(x) for x in v.replace(" ", "").split(",") if x.strip()]
        vals.append(sum(b << (8 * i) for i, b in enumerate(bs)))
    return vals


def find_and_replay(prop, cfg, f, rep):
    key = None
    for (file, fn), r in RECIPES.items():
        if f.get("file") == file and re.search(r"\b%s\b" % fn, f.get("item", "")):
            key = r
    if key is None:
        rep["cex_stage"] = "no counterexample recipe for this function (Verus gives no model)"
        return None
    rd = RECIPE_DEF[key]
    src = open(os.path.join(REPO, rd["file"])).read()
    body = "\n".join(grab_item(src, k, n) for k, n in rd["items"])
    tmp = tempfile.mkdtemp(prefix="vcex-", dir=os.environ.get("TMPDIR"))
    try:
        os.makedirs(os.path.join(tmp, "src"))
        open(os.path.join(tmp, "Cargo.toml"), "w").write('[package]\nname = "vcex"\nversion = "0.1.0"\nedition = "2021"\n[workspace]\n'
                                                        '[lints.rust]\nunexpected_cfgs = { level = "allow", check-cfg = ["cfg(kani)"] }\n')
        open(os.path.join(tmp, "src", "lib.rs"), "w").write("#![allow(dead_code, unused_macros, unused_variables)]\n" + rd["stubs"]
                                                              + "\n// ---- verbatim from %s\n" % rd["file"] + body + "\n// ---- harness\n" + rd["harness"])
        env = dict(os.environ, CARGO_NET_OFFLINE="true")
        try:
            r = subprocess.run(["cargo", "kani", "--harness", "vcex_harness", "-Z", "concrete-playback", "--concrete-playback=print"],
                               cwd=tmp, env=env, capture_output=True, text=True, timeout=600)
        except subprocess.TimeoutExpired:
            rep["cex_stage"] = "kani timed out (600 s)"
            return None
        out = r.stdout + r.stderr
        rep["cex_kani"] = {"harness_source_items": ["%s %s" % x for x in rd["items"]], "result": "VERIFICATION:- FAILED" in out and "failed" or
                           ("VERIFICATION:- SUCCESSFUL" in out and "successful" or "error"),
                           "failed_checks": re.findall(r"Failed Checks: (.*)", out)[:5]}
        if "VERIFICATION:- FAILED" not in out:
            rep["cex_stage"] = "kani found no failing input for the harness (the failed obligation is not a result mismatch, or the stage does not build): " + out[-400:]
            return None
        vals = kani_values(out)
        if not vals or len(vals) < len(rd["order"]):
            rep["cex_stage"] = "kani failed the harness but printed no concrete values"
            return None
        inp = dict(zip(rd["order"], vals))
        rep["cex_kani"]["input"] = inp
    finally:
        shutil.rmtree(tmp, ignore_errors=True)
    rr = replay_real(rd["replay_kind"], inp)
    rep["cex_replay_on_real_code"] = rr
    if rr.get("status") == "reproduced":
        rep["failing_input"] = inp
        rep["replay"] = {"kind": rd["replay_kind"], "input": inp}
        print("COUNTEREXAMPLE property=%s input=%s real-code: %s" % (prop, json.dumps(inp), json.dumps(rr.get("output"))))
        return inp
    rep["cex_stage"] = "kani's input did not reproduce on the real code (%s)" % rr.get("status")
    return None


def replay_real(kind, inp):
    """run the input against the real crates of the tree under check (the replay crate is re-pointed when VERIF_REPO is a scratch copy)"""
    rdir = os.path.join(VERIF, "replay")
    env = dict(os.environ, CARGO_NET_OFFLINE="true")
    tmpc = None
    try:
        if REPO != "/repo":
            tmpc = tempfile.mkdtemp(prefix="vreplay-", dir=os.environ.get("TMPDIR"))
            shutil.copytree(os.path.join(rdir, "src"), os.path.join(tmpc, "src"))
            open(os.path.join(tmpc, "Cargo.toml"), "w").write(open(os.path.join(rdir, "Cargo.toml")).read().replace('"/repo/', '"%s/' % REPO.rstrip("/")))
            env["CARGO_TARGET_DIR"] = os.path.join(VERIF, "replay", "target")  # dependency builds are shared; only the path crates rebuild
            rdir = tmpc
        shutil.copyfile(os.path.join(REPO, "Cargo.lock"), os.path.join(rdir, "Cargo.lock"))
        b = subprocess.run(["cargo", "build", "--release", "--offline"], cwd=rdir, env=env, capture_output=True, text=True)
        if b.returncode != 0:
            return {"status": "unavailable (replay crate does not build)", "stderr": b.stderr[-800:]}
        binp = os.path.join(env.get("CARGO_TARGET_DIR", os.path.join(rdir, "target")), "release", "vreplay")
        spec = os.path.join(rdir, "vcex-input.json")
        json.dump(inp, open(spec, "w"))
        r = subprocess.run([binp, kind, spec], capture_output=True, text=True)
        if tmpc is None:
            os.remove(spec)
        try:
            out = json.loads(r.stdout.strip().splitlines()[-1])
        except Exception:
            return {"status": "unavailable (no output)", "stderr": r.stderr[-500:]}
        bad = out.get("panicked") or out.get("accepted") != out.get("policy")
        return {"status": "reproduced" if bad else "not-reproduced", "output": out}
    finally:
        if tmpc:
            shutil.rmtree(tmpc, ignore_errors=True)
