"""Driver library: extraction -> Verus -> attribution -> decision -> evidence.  See DESIGN.md §2."""
import sys, os, json, hashlib, subprocess, time, re, shutil, tempfile, concurrent.futures as cf

VERIF = os.path.dirname(os.path.dirname(os.path.abspath(__file__)))
REPO = os.environ.get("VERIF_REPO", "/repo")
VX = os.path.join(VERIF, "extractor", "target", "release", "vx")
UNITS = os.path.join(VERIF, "units")
CACHE = os.path.join(VERIF, ".cache")
VERUS_FLAGS = ["--triggers-mode", "silent", "--multiple-errors", "50", "--output-json", "--time-expanded"]
VERUS_VERSION = "verus 0.2026.09.13 (z3 bundled)"

GLOBAL_CANARY = """
// vacuity guard (appended by the driver): the trusted prelude must NOT prove false
proof fn __canary_prelude()
    ensures false,
{
    broadcast use group_field_bool, axiom_val_in_field, axiom_H_shape, lemma_rc_ok;
}
"""


HONEST_CANARY = """
// vacuity guard (appended by the driver): honest() must NOT be refutable from the builder contracts' honest-mode clauses
fn __canary_honest<F: RichField + Extendable<D>, const D: usize>(b: &mut CircuitBuilder<F, D>, x: Target)
    ensures honest() ==> false,
{ let z = b.zero(); let (lo, hi) = b.split_low_high(x, 32, 64); b.connect(lo, z); b.range_check(hi, 3); let bits = b.split_le(x, 10); let e = b.is_equal(lo, hi); let s = b.select(e, lo, hi); }
"""


class Undecided(Exception):
    pass


def sh(cmd, **kw):
    return subprocess.run(cmd, stdout=subprocess.PIPE, stderr=subprocess.PIPE, text=True, **kw)


def load_props():
    return json.load(open(os.path.join(VERIF, "contracts", "props.json")))


def ensure_extractor():
    src = os.path.join(VERIF, "extractor", "src")
    newest = max(os.path.getmtime(os.path.join(src, f)) for f in os.listdir(src))
    if not os.path.exists(VX) or os.path.getmtime(VX) < newest:
        env = dict(os.environ, CARGO_NET_OFFLINE="true")
        r = sh(["cargo", "build", "--release", "--offline"], cwd=os.path.join(VERIF, "extractor"), env=env)
        if r.returncode != 0:
            raise Undecided("extractor does not build: " + r.stderr[-2000:])


def gen_unit(unit, outdir=UNITS, repo=None, canaries=True):
    """Run the extractor for one unit. Returns (unit_rs_path, report)."""
    repo = repo or REPO
    os.makedirs(outdir, exist_ok=True)
    tmpl = os.path.join(VERIF, "contracts", unit + ".vrs")
    out = os.path.join(outdir, unit + ".rs")
    rep = os.path.join(outdir, unit + ".report.json")
    env = dict(os.environ, VX_CANARIES="1" if canaries else "0")
    r = sh([VX, tmpl, repo, VERIF, out, rep], env=env)
    report = json.load(open(rep)) if os.path.exists(rep) else {"items": [], "problems": ["no report"]}
    if r.returncode != 0:
        raise Undecided("extraction of unit %s: %s" % (unit, "; ".join(report.get("problems", [])) or r.stderr.strip()))
    txt = open(out).read()
    # append the global canary before the closing of the verus! block
    idx = txt.rfind("} // verus!")
    if idx < 0:
        raise Undecided("unit template %s lacks '} // verus!'" % unit)
    l0 = txt[:idx].count("\n") + 1
    # the canary pulls in every trusted broadcast axiom that exists in this unit
    names = [n for n in ["group_field_bool", "axiom_val_in_field", "axiom_H_shape", "lemma_rc_ok", "axiom_spec_lz"] if re.search(r"\b(fn|group)\s+%s\b" % n, txt)]
    # ... and every other TRUSTED (external_body) broadcast axiom of the unit
    for mm in re.finditer(r"#\[verifier::external_body\]\s*pub broadcast proof fn (\w+)", txt):
        if mm.group(1) not in names:
            names.append(mm.group(1))
    canary = GLOBAL_CANARY.replace("    broadcast use group_field_bool, axiom_val_in_field, axiom_H_shape, lemma_rc_ok;\n", ("    broadcast use %s;\n" % ", ".join(names)) if names else "")
    txt = txt[:idx] + canary + txt[idx:]
    report["global_canary_lines"] = [l0, l0 + canary.count("\n")]
    # TB-5 vacuity guard: the honest-mode clauses of the builder contracts must not make honest() refutable
    if re.search(r"uninterp spec fn honest\(\)", txt) and "pub fn split_low_high" in txt:
        idx = txt.rfind("} // verus!")
        l1 = txt[:idx].count("\n") + 1
        hc = HONEST_CANARY
        txt = txt[:idx] + hc + txt[idx:]
        report["honest_canary_lines"] = [l1, l1 + hc.count("\n")]
    open(out, "w").write(txt)
    json.dump(report, open(rep, "w"), indent=1)
    return out, report


ERR_RE = re.compile(r"^(error|warning)(\[[A-Z0-9]+\])?: (.*)$")
LOC_RE = re.compile(r"^\s*--> (.*?):(\d+):(\d+)")
LINE_RE = re.compile(r"^\s*(\d+) \|")


def parse_diag(stderr):
    """Split rustc-style diagnostics into blocks with all line numbers they mention."""
    blocks, cur = [], None
    for line in stderr.splitlines():
        m = ERR_RE.match(line)
        if m:
            if cur:
                blocks.append(cur)
            cur = {"level": m.group(1), "code": m.group(2), "msg": m.group(3), "lines": [], "primary": None, "text": [line]}
            continue
        if cur is None:
            continue
        cur["text"].append(line)
        m = LOC_RE.match(line)
        if m and cur["primary"] is None:
            cur["primary"] = int(m.group(2))
            cur["lines"].append(int(m.group(2)))
        m = LINE_RE.match(line)
        if m:
            cur["lines"].append(int(m.group(1)))
    if cur:
        blocks.append(cur)
    for b in blocks:
        b["text"] = "\n".join(b["text"])
    return blocks


SEMANTIC = [
    ("postcondition not satisfied", "post"),
    ("precondition not satisfied", "pre"),
    ("invariant not satisfied at end of loop body", "inv-preserve"),
    ("invariant not satisfied before loop", "inv-init"),
    ("assertion failed", "assert"),
    ("possible arithmetic underflow/overflow", "overflow"),
    ("possible division by zero", "div0"),
    ("index out of bounds", "index"),
    ("decreases not satisfied", "decreases"),
    ("possible bit shift underflow/overflow", "shift"),
    ("failed precondition", "pre"),
    ("precondition not met: index in bounds", "index"),
    ("precondition not met", "pre"),
    ("recommendation not met", None),
]
RESOURCE = ["Resource limit (rlimit) exceeded", "rlimit", "timed out", "could not prove termination", "loop invariant not satisfied: resource"]


def classify(msg):
    for pat, kind in SEMANTIC:
        if pat in msg:
            return kind
    return None


def count_obligations(air_path):
    """Number of proof obligations Verus generated, per function: `(location` nodes in Function-Def queries."""
    per = {}
    cur = None
    in_def = False
    if not os.path.exists(air_path):
        return per
    for line in open(air_path, errors="replace"):
        if line.startswith(";; Function-Def "):
            cur = line[len(";; Function-Def "):].strip()
            in_def = True
            per.setdefault(cur, 0)
        elif line.startswith(";; Function-") or line.startswith(";; Fuel") or line.startswith(";; Trait") or line.startswith(";; Datatypes") or line.startswith(";; Broadcast"):
            in_def = False
        elif in_def and "(location" in line:
            per[cur] += line.count("(location")
    return per


def verify_file(path, rlimit=None, extra=None):
    """Run Verus on one generated file (cached by content hash). Returns result dict."""
    txt = open(path, "rb").read()
    flags = list(VERUS_FLAGS)
    if rlimit:
        flags += ["--rlimit", str(rlimit)]
    if extra:
        flags += extra
    key = hashlib.sha256(txt + ("\0".join(flags) + VERUS_VERSION).encode()).hexdigest()
    # The verifier runs on EVERY invocation. A result cache exists only as a development aid and is opt-in
    # (VERIF_CACHE=1); the registered commands never set it, so a quiet run always means Verus discharged the obligations now.
    use_cache = bool(os.environ.get("VERIF_CACHE")) and not os.environ.get("VERIF_NOCACHE")
    cpath = os.path.join(CACHE, key + ".json")
    if use_cache and os.path.exists(cpath):
        r = json.load(open(cpath))
        r["cached"] = True
        return r
    # per-invocation scratch directory (unique: concurrent checks of properties that share a unit must not collide)
    os.makedirs(CACHE, exist_ok=True)
    logdir = tempfile.mkdtemp(prefix="log-%s-" % key[:12], dir=CACHE)
    t0 = time.time()
    p = sh(["verus", path] + flags + ["--log", "air-final", "--log-dir", logdir], cwd=os.path.dirname(path))
    wall = time.time() - t0
    res = {"cached": False, "wall_s": wall, "returncode": p.returncode, "stderr": p.stderr, "cmd": "verus %s %s" % (os.path.basename(path), " ".join(flags))}
    try:
        j = json.loads(p.stdout)
    except Exception:
        j = None
    res["json_ok"] = j is not None
    funcs = {}
    if j:
        vr = j.get("verification-results", {})
        res["verified"] = vr.get("verified", 0)
        res["errors"] = vr.get("errors", 0)
        res["vir_error"] = vr.get("encountered-vir-error", False)
        res["success"] = vr.get("success", False)
        tm = j.get("times-ms", {})
        res["smt_ms"] = tm.get("smt", {}).get("total", 0)
        res["total_ms"] = tm.get("total", 0)
        for mod in tm.get("smt", {}).get("smt-run-module-times", []):
            for fb in mod.get("function-breakdown", []):
                nm = fb["function"]
                e = funcs.setdefault(nm, {"time_ms": 0, "rlimit": 0, "success": True})
                e["time_ms"] += fb.get("time", 0)
                e["rlimit"] += fb.get("rlimit", 0)
                e["success"] = e["success"] and fb.get("success", False)
    res["functions"] = funcs
    obl = {}
    if os.path.isdir(logdir):
        for f in os.listdir(logdir):
            if f.endswith(".air"):
                for k, v in count_obligations(os.path.join(logdir, f)).items():
                    obl[k] = obl.get(k, 0) + v
        shutil.rmtree(logdir, ignore_errors=True)
    res["obligations"] = obl
    res["diags"] = [b for b in parse_diag(p.stderr) if b["level"] == "error"]
    if use_cache:
        json.dump(res, open(cpath, "w"))
    return res


def item_of_line(report, line):
    for it in report["items"]:
        a, b = it["out_lines"]
        if a <= line <= b:
            return ("item", it)
        cl = it.get("canary_lines")
        if cl and cl[0] <= line <= cl[1]:
            return ("canary", it)
    g = report.get("global_canary_lines")
    if g and g[0] <= line <= g[1]:
        return ("gcanary", None)
    g = report.get("honest_canary_lines")
    if g and g[0] <= line <= g[1]:
        return ("hcanary", None)
    for inc in report.get("includes", []):
        a, b = inc["out_lines"]
        if a <= line <= b:
            return ("prelude", inc)
    return ("template", None)


def is_fn_item(it):
    return "fn" in it["selector"].split()


def qual_name(it):
    """Type::name for impl methods, name for free functions (as Verus prints them, modulo the module prefix)."""
    sel = it["selector"].split()
    name = sel[-1]
    if "impl" in sel:
        i = sel.index("impl")
        ty = sel[i + 3] if len(sel) > i + 2 and sel[i + 2] == "for" else sel[i + 1]
        return ty + "::" + name
    return name


def verus_fn_matches(vname, it):
    q = qual_name(it)
    return vname == q or vname.endswith("::" + q)


def fn_name_of_item(it):
    sel = it["selector"].split()
    return sel[-1]


GENERIC_NAMES = {"new", "len", "push", "from", "into", "default", "clone", "fmt", "drop", "get", "insert", "remove", "is_empty", "try_from", "eq"}


def callee_closure(report, lines):
    """LINT ONLY (bin/lint-props; not used for attribution — name-based call edges are too coarse to blame a property with).
    Modular verification checks a caller against its callee's CONTRACT, so a property mapped to a function also rests on the
    contracts of the functions it calls. Returns {selector: set(properties)}: for every extracted function, the properties of every
    function of the unit that (transitively) calls it; the side-cars' `props=` lists are curated by hand against this listing. Call edges are read off the generated text (`name(`); names shared with std
    (new, len, push, ...) only count when written `Self::name(` / `self.name(` / `Type::name(`."""
    items = [it for it in report["items"] if it.get("out_lines") and re.search(r"\bfn\b", it["selector"])]
    names, texts = [], []
    for it in items:
        text = "\n".join(lines[it["out_lines"][0] - 1: it["out_lines"][1]])
        m = re.search(r"\bfn\s+([A-Za-z_0-9]+)", text)
        names.append(m.group(1) if m else None)
        # body only: drop the signature/contract part so that a callee named in an `ensures` clause is not an edge
        b = text.find("\n{")
        texts.append(text[b:] if b >= 0 else text)
    calls = {i: set() for i in range(len(items))}
    for i in range(len(items)):
        for j in range(len(items)):
            if i == j or not names[j]:
                continue
            nm = re.escape(names[j])
            pat = (r"(?:\bSelf::|\bself\.|\b[A-Z][A-Za-z_0-9]*::)%s\s*\(" % nm) if names[j] in GENERIC_NAMES else (r"\b%s\s*(?:::<[^>]*>)?\(" % nm)
            if re.search(pat, texts[i]):
                calls[i].add(j)
    inherited = {}
    for i, it in enumerate(items):
        seen, stack = set(), [i]
        while stack:
            k = stack.pop()
            for j in calls[k]:
                if j not in seen:
                    seen.add(j)
                    stack.append(j)
        for j in seen:
            inherited.setdefault(items[j]["selector"], set()).update(it["props"])
    return inherited


def analyse_unit(unit, res, report, unit_path):
    """Attribute Verus diagnostics. Returns dict(compile_error, resource, canary_ok, failures=[...])."""
    out = {"compile_error": None, "resource": [], "failures": [], "canaries_expected": 0, "canaries_failed": 0, "other": []}
    lines = open(unit_path).read().splitlines()
    expected_canaries = 1 + (1 if report.get("honest_canary_lines") else 0) + sum(1 for it in report["items"] if it.get("canary_lines"))
    out["canaries_expected"] = expected_canaries
    seen_canary = set()
    if not res.get("json_ok") or res.get("vir_error"):
        out["compile_error"] = res["stderr"][-3000:]
        return out
    for d in res["diags"]:
        msg = d["msg"]
        if msg.startswith("aborting due to") or msg.startswith("could not compile"):
            continue
        kind = classify(msg)
        where = [item_of_line(report, l) for l in d["lines"]]
        kinds = [w[0] for w in where]
        if "gcanary" in kinds:
            seen_canary.add("global")
            continue
        if "hcanary" in kinds:
            seen_canary.add("honest")
            continue
        if "canary" in kinds:
            it = [w[1] for w in where if w[0] == "canary"][0]
            seen_canary.add((it["selector"], tuple(it["canary_lines"])))
            continue
        if kind is None:
            if any(r in msg for r in RESOURCE) or "rlimit" in d["text"]:
                its = [w[1] for w in where if w[0] == "item"]
                out["resource"].append({"msg": msg, "item": its[0]["selector"] if its else None, "text": d["text"]})
                continue
            # not a verification failure: type error, unsupported construct, ...
            out["compile_error"] = d["text"]
            continue
        its = [w[1] for w in where if w[0] == "item"]
        clause = re.sub(r"\s*//\s*\[C[^\]]*\].*$", "", lines[d["primary"] - 1]).strip()[:100] if d["primary"] and d["primary"] <= len(lines) else ""
        if its:
            it = its[0]
            # prefer the item containing the primary span
            for w, l in zip(where, d["lines"]):
                if w[0] == "item" and l == d["primary"]:
                    it = w[1]
            fprops = it["props"]
            mt = re.search(r"//\s*\[(C\d+(?:\s*,\s*C\d+)*)\]", lines[d["primary"] - 1]) if d["primary"] and d["primary"] <= len(lines) else None
            at_call_site = bool(d["primary"]) and it.get("out_lines") and it["out_lines"][0] <= d["primary"] <= it["out_lines"][1]
            if mt and (kind != "pre" or at_call_site):
                # clause-level tag in the side-car: the failing clause carries only these properties. (For a failed precondition the tag
                # counts only when the reported line is the CALL SITE inside this function — a hint of the side-car — not the callee's
                # `requires` line, whose tag would be the callee's.)
                fprops = [x.strip() for x in mt.group(1).split(",")]
            out["failures"].append({"unit": unit, "item": it["selector"], "file": it["file"], "props": fprops, "kind": kind,
                                    "clause": clause, "obligation": "%s.%s.%s[%s]" % (unit, fn_name_of_item(it), kind, clause),
                                    "text": d["text"], "src_lines": it["src_lines"]})
        else:
            # lemma / spec region: the nearest preceding `//#props Cxx,Cyy` marker (if any) names the properties it carries
            lprops = None
            if d["primary"]:
                for j in range(min(d["primary"], len(lines)) - 1, -1, -1):
                    mm = re.match(r"\s*//#props\s+(.*)$", lines[j])
                    if mm:
                        lprops = [x.strip() for x in mm.group(1).split(",") if x.strip()]
                        break
            out["other"].append({"unit": unit, "kind": kind, "clause": clause, "text": d["text"], "where": kinds, "props": lprops})
    out["canaries_failed"] = len(seen_canary)
    return out


def source_hash(it):
    return hashlib.sha256(it["src_text"].encode()).hexdigest()[:16]


def scan_trusted(unit_path, report):
    """Mechanical scan for every assumption in the generated unit (DESIGN §2.1 step 6)."""
    hits = []
    lines = open(unit_path).read().splitlines()
    pat = re.compile(r"external_body|assume_specification|\badmit\(|\bassume\(|uninterp spec fn|external_fn_specification|#\[verifier::external")
    for i, l in enumerate(lines, 1):
        if l.lstrip().startswith("//"):
            continue
        if pat.search(l):
            k, it = item_of_line(report, i)
            # name of the thing: next line containing fn/struct
            name = ""
            for j in range(i - 1, min(i + 4, len(lines))):
                m = re.search(r"\b(fn|struct|trait)\s+([A-Za-z_0-9]+)", lines[j])
                if m:
                    name = m.group(2)
                    break
            hits.append({"line": i, "where": k, "what": l.strip()[:80], "name": name})
    return hits


def write_evidence(prop, ev):
    if os.environ.get("VERIF_REPO"):
        return  # scratch-copy runs (bin/mut) never overwrite the evidence of /repo
    os.makedirs(os.path.join(VERIF, "evidence"), exist_ok=True)
    json.dump(ev, open(os.path.join(VERIF, "evidence", prop + ".json"), "w"), indent=1)


REPLAY_BIN = os.path.join(VERIF, "replay", "target", "release", "vreplay")


def ensure_replay():
    """Build the replay crate (links the real /repo crates with --features verif-hooks). ~1 min cold."""
    env = dict(os.environ, CARGO_NET_OFFLINE="true")
    shutil.copyfile(os.path.join(REPO, "Cargo.lock"), os.path.join(VERIF, "replay", "Cargo.lock"))
    r = sh(["cargo", "build", "--release", "--offline"], cwd=os.path.join(VERIF, "replay"), env=env)
    return r.returncode == 0, r.stderr[-1500:]


def run_replay(rp):
    """Run a stored input against the REAL code. Returns {status: reproduced|not-reproduced|unavailable, ...}."""
    if "input" in rp:  # an input found by the counterexample stage (bin/vcex.py): re-execute it on the real crates of the tree under check
        import vcex
        return vcex.replay_real(rp["kind"], rp["input"])
    if REPO != "/repo":
        return {"status": "unavailable (replay crate links /repo itself; VERIF_REPO points elsewhere)"}
    ok, err = ensure_replay()
    if not ok:
        return {"status": "unavailable (replay crate does not build)", "stderr": err}
    spec = os.path.join(VERIF, rp["spec_file"])
    r = sh([REPLAY_BIN, rp["kind"], spec])
    try:
        out = json.loads(r.stdout.strip().splitlines()[-1])
    except Exception:
        return {"status": "unavailable (no output)", "stderr": r.stderr[-500:]}
    good = out.get("accepted") == rp.get("expect_accepted", True)
    for k, v in rp.get("expect_public_inputs", {}).items():
        pis = out.get("public_inputs") or []
        good = good and int(k) < len(pis) and pis[int(k)] == v
    return {"status": "reproduced" if good else "not-reproduced", "output": out}


def cex_recipes(my_items):
    """which of this property's functions have a counterexample recipe (bin/vcex.py, DESIGN §0.8); the stage runs only after a VIOLATION"""
    try:
        import vcex
    except ImportError:
        return {"available_for": [], "note": "bin/vcex.py missing"}
    fns = sorted(set("%s::%s" % (file, fn) for (file, fn) in vcex.RECIPES for _, it in my_items
                     if it["file"] == file and re.search(r"\b%s\b" % fn, it["selector"])))
    return {"available_for": fns,
            "note": "runs only after Verus has decided a VIOLATION: the function is copied verbatim into a dependency-free crate, a loop-free Kani harness "
                    "over the full domain yields an input, /verif/replay re-executes it on the real crates; any other function's VIOLATION line ends with no-failing-input-found"}


def load_known():
    p = os.path.join(VERIF, "known_findings.json")
    if os.path.exists(p):
        return json.load(open(p))
    return {"findings": [], "fixed": []}


def thorough_stability(units, gens, seed, base_fail):
    """thorough tier: re-discharge every unit under three more Z3 seeds (derived from VERIF_SEED). A VC is discharged if ANY
    proof search discharges it, so this never raises an alarm; it measures proof stability and is reported in the evidence."""
    rows = []
    zseeds = [101 + 7 * seed, 211 + 13 * seed, 307 + 17 * seed]
    jobs = [(u, z) for u in units for z in zseeds]
    with cf.ThreadPoolExecutor(max_workers=8) as ex:
        futs = {j: ex.submit(verify_file, gens[j[0]][0], None, ["--smt-option", "smt.random_seed=%d" % j[1]]) for j in jobs}
        for (u, z), f in futs.items():
            r = f.result()
            a = analyse_unit(u, r, gens[u][1], gens[u][0])
            fails = [x["obligation"] for x in a["failures"]] + ["%s.lemma.%s[%s]" % (u, o["kind"], o["clause"]) for o in a["other"]]
            rows.append({"unit": u, "z3_seed": z, "smt_ms": r.get("smt_ms", 0), "verified_fns": r.get("verified", 0),
                         # only obligations that the base run DISCHARGED and this seed does not (instability); obligations failing
                         # in the base run too (known findings, or the violation being reported) are counted separately
                         "failing_under_this_seed": [x for x in fails if x not in base_fail.get(u, set())],
                         "failing_as_in_base_run": len([x for x in fails if x in base_fail.get(u, set())]), "compile_error": bool(a["compile_error"]), "resource": len(a["resource"])})
    return rows


def thorough_selftest(prop):
    """thorough tier: detection self-test. Every stored seeded change (seeded/<id>/patch.diff) that this property's check is
    recorded as catching is applied to a scratch copy of /repo's CURRENT tree and the quick check is run on the copy; the
    expected outcome is exit 1. Informational (a patch may not apply on an edited tree); never an alarm."""
    out = []
    try:
        res = json.load(open(os.path.join(VERIF, "seeded", "results.json")))
    except Exception:
        return out
    for sid, e in sorted(res.items()):
        cb = e.get("caught_by") or []
        cb = [cb] if isinstance(cb, str) else cb
        if prop not in cb:
            continue
        d = tempfile.mkdtemp(prefix="verif-selftest-")
        try:
            sh(["rsync", "-a", "--exclude", "target", "--exclude", ".git", REPO + "/", d + "/"])
            ap = sh(["patch", "-p1", "-s", "-f", "-i", os.path.join(VERIF, e["patch"])], cwd=d)
            if ap.returncode != 0:
                out.append({"seeded": sid, "result": "patch does not apply to the current tree (skipped)"})
                continue
            env = dict(os.environ, VERIF_REPO=d, VERIF_TIER="quick", VERIF_REPLAY_DIR=d)
            r = sh([os.path.join(VERIF, "bin", "check"), prop, "--tier", "quick"], env=env)
            obl = [l[len("FAILED-OBLIGATION "):] for l in r.stdout.splitlines() if l.startswith("FAILED-OBLIGATION ")]
            out.append({"seeded": sid, "exit": r.returncode, "result": "caught" if r.returncode == 1 else "NOT caught", "failed_obligations": obl[:6]})
        finally:
            shutil.rmtree(d, ignore_errors=True)
    return out


def run_property(prop, tier, seed, replay, t0):
    """Per-invocation unit directory units/<Cxx>-XXXXXX/: two runs of the same property (e.g. against /repo and against a scratch
    copy, or quick and thorough at once) never share generated files. Removed after a quiet run; kept after a violation or an
    undecided run (the diagnostics quote its line numbers) and garbage-collected after six hours."""
    os.makedirs(UNITS, exist_ok=True)
    now = time.time()
    for d in os.listdir(UNITS):
        pth = os.path.join(UNITS, d)
        try:
            if os.path.isdir(pth) and now - os.path.getmtime(pth) > 6 * 3600:
                shutil.rmtree(pth, ignore_errors=True)
        except OSError:
            pass
    udir = tempfile.mkdtemp(prefix=prop + "-", dir=UNITS)
    rc = 2
    try:
        rc = _run_property(prop, tier, seed, replay, t0, udir)
        return rc
    finally:
        if rc == 0 and not os.environ.get("VERIF_KEEP_UNITS"):
            shutil.rmtree(udir, ignore_errors=True)


def _run_property(prop, tier, seed, replay, t0, udir):
    props = load_props()
    if prop not in props:
        print("property %s is not claimed by this framework (see MANIFEST.not_applicable)" % prop)
        return 2
    cfg = props[prop]
    # `depends`: properties whose proved contracts / invariants this property's proof ASSUMES across functions that do not call each
    # other (a data-structure invariant established by other operations, a constructor's postcondition used as a premise). A failing
    # obligation of a dependency breaks the chain this property rests on, so it is this property's failure too; their units are run.
    deps = set(cfg.get("depends", []))
    units = list(cfg["units"]) + [u for d in sorted(deps) for u in props.get(d, {}).get("units", []) if u not in cfg["units"]]
    units = list(dict.fromkeys(units))

    def analyse_unit_d(u, r, rep, path):
        a = analyse_unit(u, r, rep, path)
        for f in a["failures"]:
            if deps & set(f["props"]) and prop not in f["props"]:
                f["props"] = list(f["props"]) + [prop]
        for o in a["other"]:
            if o.get("props") and deps & set(o["props"]) and prop not in o["props"]:
                o["props"] = list(o["props"]) + [prop]
        return a
    ev = {"property_id": prop, "tier": tier, "seed": seed, "level": cfg.get("level", "proof"), "coverage": {}, "assumptions": [], "wall_s": 0.0, "violations": 0}
    try:
        ensure_extractor()
        gens = {}
        for u in units:
            gens[u] = gen_unit(u, outdir=udir)
        results = {}
        with cf.ThreadPoolExecutor(max_workers=min(8, len(units))) as ex:
            futs = {u: ex.submit(verify_file, gens[u][0]) for u in units}
            for u, f in futs.items():
                results[u] = f.result()
        analyses = {u: analyse_unit_d(u, results[u], gens[u][1], gens[u][0]) for u in units}
        # retry on resource limits with a larger rlimit
        for u in units:
            if analyses[u]["resource"] and not analyses[u]["compile_error"]:
                results[u] = verify_file(gens[u][0], rlimit=40)
                analyses[u] = analyse_unit_d(u, results[u], gens[u][1], gens[u][0])
        # A VC discharged under ANY solver seed is discharged (each run is a valid proof search); SMT instability must not
        # become an alarm. Failing obligations are therefore re-tried under other seeds and only those failing in EVERY run count.
        for u in units:
            if analyses[u]["compile_error"]:
                continue
            known_now = set(k["obligation"] for k in load_known().get("findings", []) if k["property"] == prop)
            mine = [f for f in analyses[u]["failures"] if prop in f["props"] and f["obligation"] not in known_now] + \
                   [o for o in analyses[u]["other"] if (o.get("props") is None or prop in o["props"])
                    and "%s.lemma.%s[%s]" % (u, o["kind"], o["clause"]) not in known_now]
            if not mine:
                continue
            retried = 0
            for zseed in (11, 23, 37):
                r2 = verify_file(gens[u][0], rlimit=20, extra=["--smt-option", "smt.random_seed=%d" % zseed])
                a2 = analyse_unit_d(u, r2, gens[u][1], gens[u][0])
                retried += 1
                if a2["compile_error"]:
                    break
                keep = set(f["obligation"] for f in a2["failures"])
                keep_o = set((o["kind"], o["clause"]) for o in a2["other"])
                analyses[u]["failures"] = [f for f in analyses[u]["failures"] if f["obligation"] in keep]
                analyses[u]["other"] = [o for o in analyses[u]["other"] if (o["kind"], o["clause"]) in keep_o]
                if not analyses[u]["failures"] and not analyses[u]["other"]:
                    break
            analyses[u]["seed_retries"] = retried
    except Undecided as e:
        print("UNDECIDED property=%s: %s" % (prop, e))
        ev["coverage"] = {"evaluations": 0, "distinct_nontrivial": 0, "explanation": "undecided: %s" % e}
        ev["wall_s"] = time.time() - t0
        ev["level"] = "other"
        write_evidence(prop, ev)
        return 2

    undecided = []
    failures = []
    my_items = []
    obligations = 0
    discharged = 0
    fn_rows = []
    trusted = []
    smt_ms = 0
    for u in units:
        res, (upath, rep), an = results[u], gens[u], analyses[u]
        if an["compile_error"]:
            undecided.append("unit %s does not compile under Verus (renamed identifier / unsupported construct / type change):\n%s" % (u, an["compile_error"][-1500:]))
            continue
        if an["resource"]:
            undecided.append("unit %s: solver resource limit on %s" % (u, [r["item"] for r in an["resource"]]))
        audit_bad = [(it["selector"], it["audit_missing"]) for it in rep["items"] if it.get("audit_missing") and prop in it["props"]]
        if audit_bad:
            undecided.append("unit %s: extraction audit — tokens of the source body are missing from the verified text (the extractor may have dropped code): %s" % (u, audit_bad[:3]))
        if an["canaries_failed"] < an["canaries_expected"]:
            undecided.append("unit %s: vacuity guard — only %d of %d canaries (ensures false) failed as they must" % (u, an["canaries_failed"], an["canaries_expected"]))
        if an["other"]:
            # failure in a lemma / prelude region of the template: attribute to the property only via the unit
            for o in an["other"]:
                if o.get("props") is not None and prop not in o["props"]:
                    continue
                failures.append({"unit": u, "item": "(lemma/spec region)", "file": "contracts/%s.vrs" % u, "props": [prop], "kind": o["kind"],
                                 "clause": o["clause"], "obligation": "%s.lemma.%s[%s]" % (u, o["kind"], o["clause"]), "text": o["text"], "src_lines": None})
        for f in an["failures"]:
            if prop in f["props"]:
                failures.append(f)
        smt_ms += res.get("smt_ms", 0)
        fnames = {}
        for it in rep["items"]:
            if is_fn_item(it) and prop in it["props"]:
                my_items.append((u, it))
        # obligations: all proved functions of the unit that are not canaries (lemmas are part of the argument)
        fn_items = [it for it in rep["items"] if is_fn_item(it)]
        for fn, n in res["obligations"].items():
            owner = [it for it in fn_items if verus_fn_matches(fn, it)]
            if "__canary" in fn or (owner and not any(prop in it["props"] for it in owner)):
                continue
            ok = res["functions"].get(fn, {}).get("success", True)
            failed_here = any(fn.endswith("::" + fn_name_of_item(it)) for it in [i for i in rep["items"]] if False)
            allbad = [f for f in an["failures"] if any(it["selector"] == f["item"] for it in owner)]
            bad = [f for f in allbad if prop in f["props"]]
            other = len(allbad) - len(bad)   # failing clauses tagged for other properties only: not this property's obligations
            n_mine = max(n - other, 0)
            obligations += n_mine
            # every obligation of this function that is mapped to the property and was not reported failing is discharged
            # (canary twins and clauses tagged for other properties are not part of n_mine)
            discharged += max(n_mine - len(bad), 0)
            fn_rows.append({"unit": u, "function": fn, "obligations": n_mine, "smt_ms": res["functions"].get(fn, {}).get("time_ms", 0), "verified": bool(not bad)})
        for h in scan_trusted(upath, rep):
            trusted.append("%s:%d %s %s" % (u, h["line"], h["name"], h["what"]))

    bounded = []
    for ex in cfg.get("extra", []):
        r = sh([os.path.join(VERIF, ex["cmd"][0])] + ex["cmd"][1:], cwd=VERIF)
        try:
            out = json.loads(r.stdout.strip().splitlines()[-1])
        except Exception:
            out = {"raw": r.stdout[-500:], "err": r.stderr[-500:]}
        bounded.append({"label": ex["label"], "bound": ex.get("bounded"), "returncode": r.returncode, "result": out})
        if r.returncode != 0:
            undecided.append("auxiliary check failed: %s" % ex["label"])
    # frame guard (NOT a proof, never an alarm): state named here may be touched only inside functions that are under contract.
    # If another function of the file starts touching it, the per-function contracts no longer cover the property -> undecided.
    for fg in ([] if any(analyses[u]["compile_error"] for u in units) else cfg.get("frame_guard", [])):
        spans = [it["src_lines"] for _, it in my_items if it["file"] == fg["file"] and fn_name_of_item(it) in fg["allowed_fns"]]
        try:
            src = open(os.path.join(REPO, fg["file"])).read().splitlines()
        except OSError:
            undecided.append("frame guard: %s not readable" % fg["file"])
            continue
        for ln, l in enumerate(src, 1):
            code = l.split("//")[0]
            if any(t in code for t in fg["tokens"]) and not any(a <= ln <= b for a, b in spans):
                undecided.append("frame guard: %s:%d touches %s outside the functions under contract (%s); the per-function contracts no longer cover the property" % (
                    fg["file"], ln, [t for t in fg["tokens"] if t in code], ", ".join(fg["allowed_fns"])))
    expected_fns = cfg.get("functions", [])
    present = set(fn_name_of_item(it) for _, it in my_items)
    for fn in expected_fns:
        if fn not in present:
            undecided.append("expected function %s is not under contract in this run (anchor lost)" % fn)
    if not my_items and not cfg.get("lemma_only"):
        undecided.append("no function of /repo is mapped to this property")
    if obligations == 0:
        undecided.append("zero obligations generated")

    known = load_known()
    known_obl = {k["obligation"]: k for k in known.get("findings", []) if k["property"] == prop}
    new_fail = [f for f in failures if f["obligation"] not in known_obl]
    # counts: a failing lemma-region obligation is not discharged; an obligation listed as a KNOWN finding is reported as such
    # (coverage.known_failing_obligations) and is neither counted as an obligation of this run nor as discharged
    discharged -= len([f for f in failures if f["item"] == "(lemma/spec region)"])
    known_fail = [f for f in failures if f["obligation"] in known_obl]
    obligations -= len(known_fail)
    discharged = max(min(discharged, obligations), 0)
    replayed = []
    for f in failures:
        if f["obligation"] in known_obl:
            k = known_obl[f["obligation"]]
            note = ""
            rp = k.get("replay")
            if rp:
                rr = run_replay(rp)
                replayed.append({"id": k.get("id"), "result": rr})
                note = " [replayed on the real code: %s]" % rr.get("status")
            print("KNOWN-FINDING: property=%s %s%s" % (prop, k["what"], note))

    stability, selftest = [], []
    if tier == "thorough" and not any(analyses[u]["compile_error"] for u in units):
        base_fail = {u: set([x["obligation"] for x in analyses[u]["failures"]] + ["%s.lemma.%s[%s]" % (u, o["kind"], o["clause"]) for o in analyses[u]["other"]]) for u in units}
        stability = thorough_stability(units, gens, seed, base_fail)
        if not os.environ.get("VERIF_REPO"):
            selftest = thorough_selftest(prop)
        for st in selftest:
            if st.get("result") == "NOT caught":
                print("NOTE property=%s detection self-test: seeded change %s was not caught on this tree" % (prop, st["seeded"]))
    samples = []
    for u, it in my_items[:6]:
        samples.append({"function": "%s::%s" % (it["file"], it["selector"]), "src_lines": it["src_lines"], "src_sha": source_hash(it),
                        "rules": sorted(set(r["rule"] for r in it["rules"])), "loops": it["loops"]})
    cov = {
        "obligations": obligations, "discharged": discharged,
        "checker_cmd": "; ".join(sorted(set(results[u]["cmd"] for u in units))),
        "trusted_base": sorted(set(trusted)) + cfg.get("trusted", []),
        "functions_under_contract": ["%s::%s" % (it["file"], it["selector"]) for _, it in my_items],
        "per_function": fn_rows,
        "solver_time_ms": smt_ms,
        "back_end": VERUS_VERSION,
        "units": units,
        "extraction": [{"function": it["selector"], "file": it["file"], "src_lines": it["src_lines"], "src_sha": source_hash(it),
                        "rules_applied": it["rules"], "dropped": it["dropped"], "token_audit_missing": it.get("audit_missing")} for _, it in my_items],
        # lightweight translation validation (DESIGN §3.2): operators / integer literals / call names of each source body that are
        # absent from the verified text after the closed list of rule-consumed names is discounted
        "extraction_token_audit": {"functions_audited": sum(1 for u in units for it in gens[u][1]["items"] if it.get("audit_missing") is not None),
                                   "with_differences": [{"unit": u, "function": it["selector"], "missing": it["audit_missing"]}
                                                        for u in units for it in gens[u][1]["items"] if it.get("audit_missing")]},
        "not_covered": cfg.get("not_covered", []),
        "samples": samples,
        "explanation": cfg.get("explanation", ""),
        "cached_units": [u for u in units if results[u].get("cached")],
        "bounded_stand_ins": bounded,
        "seed_retries": {u: analyses[u].get("seed_retries", 0) for u in units},
        "known_findings_replayed": replayed,
        "known_failing_obligations": [f["obligation"] for f in known_fail],
        "thorough_seed_stability": stability,
        "thorough_detection_selftest": selftest,
        "counterexample_stage": cex_recipes(my_items),
    }
    ev["coverage"] = cov
    ev["assumptions"] = cfg.get("assumptions", []) + ["every item listed in coverage.trusted_base (mechanical scan of the generated unit)",
                                                       "usize is 64 bit; Verus + Z3 are sound; the extractor's rules N1..N27 preserve semantics (DESIGN §0.4, §3; no translation validation is built)"]
    ev["wall_s"] = time.time() - t0

    if replay:
        # --replay FILE: re-decide the obligation a stored violation names, on the current tree (and re-run its concrete input, if it has one)
        try:
            rj = json.load(open(replay))
        except Exception as e:
            rj = {}
            print("REPLAY property=%s cannot read %s: %s" % (prop, replay, e))
        want = rj.get("obligation")
        still = want in [f["obligation"] for f in failures]
        print("REPLAY property=%s obligation=%s : %s" % (prop, want, "still FAILS on the current tree" if still else "is discharged on the current tree"))
        if rj.get("replay"):
            print("REPLAY property=%s concrete input on the real code: %s" % (prop, json.dumps(run_replay(rj["replay"]))[:600]))
    if new_fail:
        ev["violations"] = len(new_fail)
        write_evidence(prop, ev)
        rdir = os.environ.get("VERIF_REPLAY_DIR") or os.path.join(VERIF, "replays")
        os.makedirs(rdir, exist_ok=True)
        f = new_fail[0]
        slug = re.sub(r"[^A-Za-z0-9_.-]+", "_", f["obligation"])[:80]
        rp = os.path.join(rdir, "%s-%s.json" % (prop, slug))
        rep = {"property": prop, "obligation": f["obligation"], "function": f["item"], "file": f["file"], "src_lines": f["src_lines"],
               "kind": f["kind"], "verifier_output": f["text"], "all_failed_obligations": [x["obligation"] for x in new_fail],
               "failing_input": None, "tier": tier}
        cex = None
        try:
            import vcex
            cex = vcex.find_and_replay(prop, cfg, f, rep)
        except ImportError:
            cex = None
        except Exception as e:  # counterexample search is best effort
            rep["cex_error"] = str(e)
        json.dump(rep, open(rp, "w"), indent=1)
        for x in new_fail:
            print("FAILED-OBLIGATION %s" % x["obligation"])
        print(f["text"])
        if cex:
            print("VIOLATION property=%s replay=%s" % (prop, rp))
        else:
            print("VIOLATION property=%s replay=%s no-failing-input-found" % (prop, rp))
        return 1
    if undecided:
        ev["level"] = "other"
        ev["coverage"]["explanation"] = "UNDECIDED: " + " | ".join(undecided)
        write_evidence(prop, ev)
        for m in undecided:
            print("UNDECIDED property=%s: %s" % (prop, m))
        return 2
    write_evidence(prop, ev)
    print("OK property=%s tier=%s obligations=%d discharged=%d functions=%d solver_ms=%d wall=%.1fs" % (
        prop, tier, obligations, discharged, len(my_items), smt_ms, ev["wall_s"]))
    return 0
