#!/usr/bin/env python3
"""C34 sentence 1 (outside the contract family): the repository's Lean package type-checks offline.
Copies /repo/formal to a scratch dir under /verif/.cache, runs `lake build`, counts theorems/axioms/sorry. One JSON line."""
import subprocess, sys, os, json, shutil, time, re, tempfile
repo = os.environ.get("VERIF_REPO", "/repo")
V = os.path.dirname(os.path.dirname(os.path.abspath(__file__)))
t0 = time.time()
src = os.path.join(repo, "formal")
dst = tempfile.mkdtemp(prefix="formal-", dir=os.path.join(V, ".cache") if os.path.isdir(os.path.join(V, ".cache")) else None)
try:
    shutil.copytree(src, os.path.join(dst, "formal"), ignore=shutil.ignore_patterns(".lake"))
    r = subprocess.run(["lake", "build"], cwd=os.path.join(dst, "formal"), stdout=subprocess.PIPE, stderr=subprocess.STDOUT, text=True, timeout=1200)
    txt = ""
    for f in sorted(os.listdir(os.path.join(src, "WormholeSpec"))):
        txt += open(os.path.join(src, "WormholeSpec", f)).read()
    out = {"lake_build_rc": r.returncode, "theorems": len(re.findall(r"^(theorem|lemma) ", txt, re.M)), "axioms": re.findall(r"^axiom (\w+)", txt, re.M),
           "sorry": len(re.findall(r"\bsorry\b", txt)), "wall_s": round(time.time() - t0, 1), "backend": "lean 4 kernel (lake build)", "tail": r.stdout[-400:] if r.returncode else ""}
    print(json.dumps(out))
    sys.exit(0 if r.returncode == 0 and out["sorry"] == 0 else 1)
finally:
    shutil.rmtree(dst, ignore_errors=True)
