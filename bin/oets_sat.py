#!/usr/bin/env python3
"""TB-10 support: for every n in 1..=64 decide with kissat that n rounds of the odd-even transposition network
(round r compares (i,i+1) for i = r%2, r%2+2, ...; comparator = (min,max) = (AND,OR) on 0-1 inputs) sort every
0-1 input (UNSAT of 'some 1 left of some 0'), and that the same network with n-2 rounds does NOT (SAT; vacuity guard).
Prints one JSON line."""
import subprocess, sys, json, os, tempfile, time

def build(n, rounds):
    nv = n
    cur = list(range(1, n + 1))
    cl = []
    for r in range(rounds):
        i = r % 2
        while i + 1 < n:
            a, b = cur[i], cur[i + 1]
            nv += 1; mn = nv
            nv += 1; mx = nv
            cl += [[-mn, a], [-mn, b], [mn, -a, -b]]          # mn = a AND b
            cl += [[mx, -a], [mx, -b], [-mx, a, b]]           # mx = a OR b
            cur[i], cur[i + 1] = mn, mx
            i += 2
    # unsorted: exists i: cur[i]=1 and cur[i+1]=0
    sel = []
    for i in range(n - 1):
        nv += 1; s = nv
        cl += [[-s, cur[i]], [-s, -cur[i + 1]]]
        sel.append(s)
    cl.append(sel if sel else [])
    return nv, cl

def solve(n, rounds):
    nv, cl = build(n, rounds)
    with tempfile.NamedTemporaryFile("w", suffix=".cnf", delete=False) as f:
        f.write("p cnf %d %d\n" % (nv, len(cl)))
        for c in cl:
            f.write(" ".join(map(str, c)) + " 0\n")
        path = f.name
    r = subprocess.run(["kissat", "-q", path], stdout=subprocess.PIPE, stderr=subprocess.PIPE, text=True)
    os.unlink(path)
    return {10: "SAT", 20: "UNSAT"}.get(r.returncode, "ERR%d" % r.returncode)

def main():
    t0 = time.time()
    hi = int(sys.argv[1]) if len(sys.argv) > 1 else 64
    bad = []
    for n in range(1, hi + 1):
        full = solve(n, n)
        if full != "UNSAT":
            bad.append((n, "full", full))
        if n >= 2:
            less = solve(n, n - 2)
            if less != "SAT":
                bad.append((n, "n-2 rounds", less))
    print(json.dumps({"n_max": hi, "instances": 2 * hi - 1, "failures": bad, "wall_s": round(time.time() - t0, 2), "backend": "kissat"}))
    sys.exit(1 if bad else 0)

if __name__ == "__main__":
    main()
