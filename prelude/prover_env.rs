// ---- prelude/prover_env.rs : functions and types surrounding the batch prover constructors (TB-7b). They are NOT under contract:
// each may return any value of its type (no `ensures`), so nothing proved about a constructor can depend on them, except where a
// contract is stated explicitly (those lines are assumptions and are listed in the evidence).
#[verifier::external_body]
pub struct PrivateBatchCircuit { _p: u8 }
#[verifier::external_body]
pub struct PrivateBatchCircuitTargets { _p: u8 }
impl PrivateBatchCircuit {
    #[verifier::external_body]
    pub fn new(config: CircuitConfig, leaf_common: &CommonCircuitData<F, D>, leaf_verifier_only: &VerifierOnlyCircuitData<C, D>, num_leaf_proofs: usize) -> (r: Result<Self>)
    { unimplemented!() }
    #[verifier::external_body]
    pub fn targets(&self) -> (r: PrivateBatchCircuitTargets) { unimplemented!() }
    #[verifier::external_body]
    pub fn build_prover(self) -> (r: ProverCircuitData<F, C, D>) { unimplemented!() }
}
#[verifier::external_body]
pub struct PublicBatchCircuit { _p: u8 }
#[verifier::external_body]
pub struct PublicBatchCircuitTargets { _p: u8 }
impl PublicBatchCircuit {
    #[verifier::external_body]
    pub fn new(config: CircuitConfig, common: CommonCircuitData<F, D>, verifier_only: &VerifierOnlyCircuitData<C, D>, num_private_batch_proofs: usize, private_batch_num_leaves: usize) -> (r: Result<Self>)
    { unimplemented!() }
    #[verifier::external_body]
    pub fn targets(&self) -> (r: PublicBatchCircuitTargets) { unimplemented!() }
    #[verifier::external_body]
    pub fn build_prover(self) -> (r: ProverCircuitData<F, C, D>) { unimplemented!() }
}
#[verifier::external_body]
#[verifier::reject_recursive_types(F)]
#[verifier::reject_recursive_types(C)]
pub struct ProverCircuitData<F, C, const D: usize> { _p: core::marker::PhantomData<(F, C)> }
#[verifier::external_body]
pub fn wormhole_private_batch_circuit_config() -> (r: CircuitConfig) { unimplemented!() }
#[verifier::external_body]
pub fn wormhole_public_batch_circuit_config() -> (r: CircuitConfig) { unimplemented!() }
/// the canonical (freshly rebuilt) circuits' verifier data — C17. The three functions below are under contract in unit `artifacts`, where the
/// same postconditions are PROVED on their real bodies; here they are the callee contracts the constructors are checked against.
pub uninterp spec fn canon_leaf_vk() -> int;
pub uninterp spec fn canon_leaf_common() -> CommonCircuitData<F, D>;
pub uninterp spec fn canon_pb_vk(leaf_vk: int, leaf_common: CommonCircuitData<F, D>, n: int) -> int;
pub uninterp spec fn canon_pb_common(leaf_vk: int, leaf_common: CommonCircuitData<F, D>, n: int) -> CommonCircuitData<F, D>;
#[verifier::external_body]
pub fn load_canonical_leaf_verifier_data(common_bytes: &[u8], verifier_only_bytes: &[u8]) -> (r: Result<VerifierCircuitData<F, C, D>>)
    ensures r.is_ok() ==> vk_of(&r->Ok_0.verifier_only) == canon_leaf_vk() && r->Ok_0.common == canon_leaf_common(),
{ unimplemented!() }
#[verifier::external_body]
pub fn load_canonical_private_batch_verifier_data(common_bytes: &[u8], verifier_only_bytes: &[u8], leaf: &VerifierCircuitData<F, C, D>, num_leaf_proofs: usize) -> (r: Result<VerifierCircuitData<F, C, D>>)
    ensures r.is_ok() ==> vk_of(&r->Ok_0.verifier_only) == canon_pb_vk(vk_of(&leaf.verifier_only), leaf.common, num_leaf_proofs as int)
        && r->Ok_0.common == canon_pb_common(vk_of(&leaf.verifier_only), leaf.common, num_leaf_proofs as int),
{ unimplemented!() }
#[verifier::external_body]
pub fn canonical_leaf_verifier_data() -> (r: VerifierCircuitData<F, C, D>)
    ensures vk_of(&r.verifier_only) == canon_leaf_vk() && r.common == canon_leaf_common(),
{ unimplemented!() }
#[verifier::external_body]
pub fn load_dummy_proof(bytes: Vec<u8>, common_data: &CommonCircuitData<F, D>) -> (r: Result<ProofWithPublicInputs<F, C, D>>) { unimplemented!() }
impl ProofWithPublicInputs<F, C, D> {
    #[verifier::external_body]
    pub fn from_bytes(bytes: Vec<u8>, common_data: &CommonCircuitData<F, D>) -> (r: Result<Self>) { unimplemented!() }
}
// `to_vec` clones element-wise; used here on u8 only
pub assume_specification<T: Clone> [<[T]>::to_vec] (s: &[T]) -> (r: Vec<T>)
    ensures r@ == s@;
/// std::path::Path, opaque (file contents are whatever the file system holds: no contract)
pub struct Path { pub id: u64 }
impl Path {
    #[verifier::external_body]
    pub fn join(&self, name: &str) -> (r: Path) { unimplemented!() }
}
#[verifier::external_body]
pub fn read_artifact_file(path: &Path) -> (r: Result<Vec<u8>>) { unimplemented!() }
/// config.rs CircuitBinsConfig: only the two counts are read here
pub struct CircuitBinsConfig { pub num_leaf_proofs: usize, pub num_private_batch_proofs: Option<usize> }
impl CircuitBinsConfig {
    #[verifier::external_body]
    pub fn load(bins_dir: &Path) -> (r: Result<Self>) { unimplemented!() }
}
#[verifier::external_body]
pub struct ProofPool { _p: u8 }
pub struct PoolLimits { pub max_proofs: usize }
impl ProofPool {
    #[verifier::external_body]
    pub fn new(verifier: VerifierCircuitData<F, C, D>, inner_num_leaves: usize, batch_size: usize, limits: PoolLimits) -> (r: Result<Self>) { unimplemented!() }
}
#[verifier::external_body]
pub fn load_verifier_data_from_bytes(common_bytes: &[u8], verifier_only_bytes: &[u8], label: &str) -> (r: Result<VerifierCircuitData<F, C, D>>) { unimplemented!() }
#[verifier::external_body]
pub fn canonical_public_batch_verifier_data(private_batch: &VerifierCircuitData<F, C, D>, num_private_batch_proofs: usize, num_leaf_proofs: usize) -> (r: Result<VerifierCircuitData<F, C, D>>) { unimplemented!() }
#[verifier::external_body]
pub fn ensure_verifier_data_matches_canonical(loaded: &VerifierCircuitData<F, C, D>, canonical: &VerifierCircuitData<F, C, D>, label: &str) -> (r: Result<()>) { unimplemented!() }
