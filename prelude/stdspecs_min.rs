// ---- prelude/stdspecs_min.rs : std specs needed by pure units (TB-6)
pub uninterp spec fn spec_lz(x: usize) -> u32;
#[verifier::external_body]
pub broadcast proof fn axiom_spec_lz(x: usize)
    ensures (#[trigger] spec_lz(x)) <= 64, x == 0 ==> spec_lz(x) == 64,
            x > 0 ==> pow2i((63 - spec_lz(x)) as nat) <= x as int && (x as int) < pow2i((64 - spec_lz(x)) as nat),
{ }
pub assume_specification [usize::leading_zeros] (x: usize) -> (r: u32)
    ensures r == spec_lz(x);
// `usize::ilog2` (core docs): floor of the base-2 logarithm; panics on 0
pub uninterp spec fn spec_ilog2(x: usize) -> u32;
#[verifier::external_body]
pub broadcast proof fn axiom_spec_ilog2(x: usize)
    ensures x > 0 ==> (#[trigger] spec_ilog2(x)) <= 63 && pow2i(spec_ilog2(x) as nat) <= x as int && (x as int) < pow2i((spec_ilog2(x) + 1) as nat),
{ }
pub assume_specification [usize::ilog2] (x: usize) -> (r: u32)
    requires x > 0,
    ensures r == spec_ilog2(x);
