// ---- prelude/native.rs : native (out-of-circuit) plonky2 objects the provers handle (TB-7). Proof bodies, prover data and
// witnesses are opaque; the only specified behaviour is that `verify` is a deterministic predicate of (key, public inputs, proof).
/// plonk/circuit_data.rs VerifierCircuitData { verifier_only, common }
#[verifier::reject_recursive_types(F)]
#[verifier::reject_recursive_types(C)]
pub struct VerifierCircuitData<F, C, const D: usize> { pub verifier_only: VerifierOnlyCircuitData<C, D>, pub common: CommonCircuitData<F, D> }
/// the native Plonk verifier as a mathematical predicate
pub uninterp spec fn native_accepts(vk: int, pis: Seq<int>, body: int) -> bool;
impl<C, const D: usize> VerifierCircuitData<GoldilocksField, C, D> {
    #[verifier::external_body]
    pub fn verify(&self, p: ProofWithPublicInputs<GoldilocksField, C, D>) -> (r: Result<()>)
        ensures r.is_ok() <==> native_accepts(vk_of(&self.verifier_only), pvals(&p), p.body@),
    { unimplemented!() }
}
impl<C, const D: usize> Clone for VerifierOnlyCircuitData<C, D> {
    #[verifier::external_body]
    fn clone(&self) -> (r: Self) ensures vk_of(&r) == vk_of(self) { unimplemented!() }
}
impl<F, const D: usize> Clone for CommonCircuitData<F, D> {
    #[verifier::external_body]
    fn clone(&self) -> (r: Self) ensures r == *self { unimplemented!() }
}
impl<F, C, const D: usize> Clone for ProofWithPublicInputs<F, C, D> {
    #[verifier::external_body]
    fn clone(&self) -> (r: Self) ensures r == *self { unimplemented!() }
}
impl<F, C, const D: usize> Clone for VerifierCircuitData<F, C, D> {
    #[verifier::external_body]
    fn clone(&self) -> (r: Self) ensures vk_of(&r.verifier_only) == vk_of(&self.verifier_only), r.common == self.common { unimplemented!() }
}
#[verifier::external_body]
#[verifier::reject_recursive_types(F)]
#[verifier::reject_recursive_types(C)]
pub struct CircuitData<F, C, const D: usize> { _p: core::marker::PhantomData<(F, C)> }
#[verifier::external_body]
#[verifier::reject_recursive_types(F)]
pub struct PartialWitness<F> { _p: core::marker::PhantomData<F> }
impl<F> PartialWitness<F> {
    #[verifier::external_body]
    pub fn new() -> (r: Self) { unimplemented!() }
}
