// ---- prelude/field.rs : Goldilocks field facts (TB-1). Everything here is PROVED except items tagged TB-*.
pub open spec fn P() -> int { 0xFFFF_FFFF_0000_0001 }

pub open spec fn in_field(x: int) -> bool { 0 <= x < P() }
pub open spec fn is_bool(x: int) -> bool { x == 0 || x == 1 }
pub open spec fn b2i(b: bool) -> int { if b { 1 } else { 0 } }

// opaque field operations (results through broadcast lemmas only, so Z3 never sees `%` unasked)
#[verifier::opaque] pub open spec fn fadd(a: int, b: int) -> int { (a + b) % P() }
#[verifier::opaque] pub open spec fn fsub(a: int, b: int) -> int { (a - b) % P() }
#[verifier::opaque] pub open spec fn fmul(a: int, b: int) -> int { (a * b) % P() }
#[verifier::opaque] pub open spec fn fmuladd(a: int, b: int, c: int) -> int { (a * b + c) % P() }
/// or(b1,b2) = b1 + b2 - b1*b2   (plonky2 gadgets/arithmetic.rs:357)
#[verifier::opaque] pub open spec fn f_or(a: int, b: int) -> int { (a + b - a * b) % P() }
/// select(b,x,y) = b*x - (b*y - y)   (plonky2 gadgets/select.rs:33)
#[verifier::opaque] pub open spec fn fsel(b: int, x: int, y: int) -> int { (b * x - (b * y - y)) % P() }
pub open spec fn fnot(a: int) -> int { fsub(1, a) }

pub proof fn lemma_fops_in_field(a: int, b: int, c: int)
    ensures in_field(fadd(a, b)), in_field(fsub(a, b)), in_field(fmul(a, b)), in_field(f_or(a, b)),
            in_field(fsel(a, b, c)), in_field(fmuladd(a, b, c)),
{
    reveal(fadd); reveal(fsub); reveal(fmul); reveal(f_or); reveal(fsel); reveal(fmuladd);
    vstd::arithmetic::div_mod::lemma_mod_bound(a + b, P());
    vstd::arithmetic::div_mod::lemma_mod_bound(a - b, P());
    vstd::arithmetic::div_mod::lemma_mod_bound(a * b, P());
    vstd::arithmetic::div_mod::lemma_mod_bound(a + b - a * b, P());
    vstd::arithmetic::div_mod::lemma_mod_bound(a * b - (a * c - c), P());
    vstd::arithmetic::div_mod::lemma_mod_bound(a * b + c, P());
}

pub broadcast proof fn lemma_fadd_small(a: int, b: int)
    requires 0 <= a, 0 <= b, a + b < P(),
    ensures #[trigger] fadd(a, b) == a + b,
{ reveal(fadd); vstd::arithmetic::div_mod::lemma_small_mod((a + b) as nat, P() as nat); }

pub broadcast proof fn lemma_fsub_small(a: int, b: int)
    requires 0 <= b <= a < P(),
    ensures #[trigger] fsub(a, b) == a - b,
{ reveal(fsub); vstd::arithmetic::div_mod::lemma_small_mod((a - b) as nat, P() as nat); }

/// a - b (mod P) for a < b: wraps to a - b + P
pub proof fn lemma_fsub_wrap(a: int, b: int)
    requires 0 <= a < b, b < P(),
    ensures fsub(a, b) == a - b + P(),
{
    reveal(fsub);
    vstd::arithmetic::div_mod::lemma_mod_add_multiples_vanish(a - b, P());
    vstd::arithmetic::div_mod::lemma_small_mod((a - b + P()) as nat, P() as nat);
}

pub proof fn lemma_fmul_small(a: int, b: int)
    requires 0 <= a, 0 <= b, a * b < P(),
    ensures fmul(a, b) == a * b,
{
    reveal(fmul);
    assert(0 <= a * b) by (nonlinear_arith) requires 0 <= a, 0 <= b;
    vstd::arithmetic::div_mod::lemma_small_mod((a * b) as nat, P() as nat);
}

pub proof fn lemma_fmuladd_small(a: int, b: int, c: int)
    requires 0 <= a, 0 <= b, 0 <= c, a * b + c < P(),
    ensures fmuladd(a, b, c) == a * b + c,
{
    reveal(fmuladd);
    assert(0 <= a * b) by (nonlinear_arith) requires 0 <= a, 0 <= b;
    vstd::arithmetic::div_mod::lemma_small_mod((a * b + c) as nat, P() as nat);
}

/// fsub(a,b) == 0 for field elements means a == b
pub proof fn lemma_fsub_zero(a: int, b: int)
    requires in_field(a), in_field(b), fsub(a, b) == 0,
    ensures a == b,
{
    reveal(fsub);
    if a >= b { vstd::arithmetic::div_mod::lemma_small_mod((a - b) as nat, P() as nat); }
    else { lemma_fsub_wrap(a, b); }
}

// --- boolean meaning of the gate polynomials (proved), broadcast on the operation
pub broadcast proof fn lemma_fnot_bool(a: int)
    requires is_bool(a),
    ensures #[trigger] fsub(1, a) == 1 - a,
{ reveal(fsub); vstd::arithmetic::div_mod::lemma_small_mod((1 - a) as nat, P() as nat); }

pub broadcast proof fn lemma_fmul_bool(a: int, b: int)
    requires is_bool(a), in_field(b),
    ensures #[trigger] fmul(a, b) == (if a == 1 { b } else { 0 }),
{
    reveal(fmul);
    assert(a * b == (if a == 1 { b } else { 0 })) by (nonlinear_arith) requires is_bool(a);
    vstd::arithmetic::div_mod::lemma_small_mod((a * b) as nat, P() as nat);
}

pub broadcast proof fn lemma_fmul_bool_r(a: int, b: int)
    requires in_field(a), is_bool(b),
    ensures #[trigger] fmul(a, b) == (if b == 1 { a } else { 0 }),
{
    reveal(fmul);
    assert(a * b == (if b == 1 { a } else { 0 })) by (nonlinear_arith) requires is_bool(b);
    vstd::arithmetic::div_mod::lemma_small_mod((a * b) as nat, P() as nat);
}

pub broadcast proof fn lemma_f_or_bool(a: int, b: int)
    requires is_bool(a), is_bool(b),
    ensures #[trigger] f_or(a, b) == (if a == 1 || b == 1 { 1int } else { 0int }),
{
    reveal(f_or);
    assert(a + b - a * b == (if a == 1 || b == 1 { 1int } else { 0int })) by (nonlinear_arith) requires is_bool(a), is_bool(b);
    vstd::arithmetic::div_mod::lemma_small_mod((a + b - a * b) as nat, P() as nat);
}

pub broadcast proof fn lemma_fsel_bool(b: int, x: int, y: int)
    requires is_bool(b), in_field(x), in_field(y),
    ensures #[trigger] fsel(b, x, y) == (if b == 1 { x } else { y }),
{
    reveal(fsel);
    assert(b * x - (b * y - y) == (if b == 1 { x } else { y })) by (nonlinear_arith) requires is_bool(b);
    vstd::arithmetic::div_mod::lemma_small_mod((b * x - (b * y - y)) as nat, P() as nat);
}

pub broadcast group group_field_bool {
    lemma_fadd_small, lemma_fsub_small, lemma_fnot_bool, lemma_fmul_bool, lemma_fmul_bool_r, lemma_f_or_bool, lemma_fsel_bool,
}

// powers of two used by range arguments
pub open spec fn pow2i(n: nat) -> int { vstd::arithmetic::power2::pow2(n) as int }

pub proof fn lemma_pow2_values()
    ensures pow2i(0) == 1, pow2i(1) == 2, pow2i(2) == 4, pow2i(14) == 0x4000, pow2i(32) == 0x1_0000_0000,
            pow2i(33) == 0x2_0000_0000, pow2i(48) == 0x1_0000_0000_0000, pow2i(63) == 0x8000_0000_0000_0000,
            pow2i(64) == 0x1_0000_0000_0000_0000, pow2i(5) == 32, pow2i(3) == 8, pow2i(4) == 16, pow2i(8) == 256, pow2i(16) == 0x10000,
{
    vstd::arithmetic::power2::lemma2_to64();
    vstd::arithmetic::power2::lemma2_to64_rest();
}

pub proof fn lemma_pow2_lt_P(n: nat)
    requires n <= 63,
    ensures 0 < pow2i(n) < P(),
{
    vstd::arithmetic::power2::lemma_pow2_pos(n);
    lemma_pow2_values();
    if n < 63 { vstd::arithmetic::power2::lemma_pow2_strictly_increases(n, 63); }
}
