// ---- prelude/verifier.rs : recursive verification (TB-3), transcribed from plonky2 recursion/recursive_verifier.rs and
// plonk/circuit_builder.rs. A verifier key is identified by an abstract id; `verified()` records which proof targets were
// constrained against which key.
pub trait GenericConfig<const D: usize> { type F; type Hasher; type InnerHasher; }
impl<const D: usize> GenericConfig<D> for PoseidonGoldilocksConfig { type F = GoldilocksField; type Hasher = Poseidon2Hash; type InnerHasher = Poseidon2Hash; }

/// plonk/circuit_data.rs CommonCircuitData: only `num_public_inputs` and `config` are read by the repository
#[verifier::reject_recursive_types(F)]
pub struct CommonCircuitData<F, const D: usize> { pub num_public_inputs: usize, pub config: CircuitConfig, pub _p: core::marker::PhantomData<F> }
/// plonky2 plonk/circuit_data.rs VerifierOnlyCircuitData: the two public fields, as opaque comparable values
#[derive(PartialEq, Eq, Clone, Copy)]
pub struct VkPart { pub w: [u64; 4] }
impl vstd::std_specs::cmp::PartialEqSpecImpl for VkPart {
    open spec fn obeys_eq_spec() -> bool { true }
    open spec fn eq_spec(&self, other: &Self) -> bool { self.w@ == other.w@ }
}
#[verifier::reject_recursive_types(C)]
pub struct VerifierOnlyCircuitData<C, const D: usize> { pub constants_sigmas_cap: VkPart, pub circuit_digest: VkPart, pub _p: core::marker::PhantomData<C> }
/// abstract identity of a verifier key (circuit digest + constants commitment)
pub uninterp spec fn vk_of<C, const D: usize>(v: &VerifierOnlyCircuitData<C, D>) -> int;
/// TB-3b: the key's identity is exactly its two components (two keys are the same key iff cap and digest agree)
#[verifier::external_body]
pub broadcast proof fn axiom_vk_components<C, const D: usize>(a: &VerifierOnlyCircuitData<C, D>, b: &VerifierOnlyCircuitData<C, D>)
    ensures (#[trigger] vk_of(a) == #[trigger] vk_of(b)) <==> (a.constants_sigmas_cap.w@ == b.constants_sigmas_cap.w@ && a.circuit_digest.w@ == b.circuit_digest.w@),
{ }

/// in-circuit verifier data: either baked constants of a given key, or free witness wires
#[verifier::external_body]
pub struct VerifierCircuitTarget { _p: u8 }
impl VerifierCircuitTarget { pub uninterp spec fn id(&self) -> VkId; }

impl<F: RichField + Extendable<D>, const D: usize> CircuitBuilder<F, D> {
    // circuit_builder.rs constant_verifier_data: every cap hash and the circuit digest are `constant` targets
    #[verifier::external_body]
    pub fn constant_verifier_data<C: GenericConfig<D, F = F>>(&mut self, vo: &VerifierOnlyCircuitData<C, D>) -> (r: VerifierCircuitTarget)
        ensures bframe(old(self), final(self)), final(self).sat() == old(self).sat(),
                r.id() == VkId::Fixed(vk_of(vo)),
    { unimplemented!() }
    // add_virtual_verifier_data: free targets — the prover may assign ANY key
    #[verifier::external_body]
    pub fn add_virtual_verifier_data(&mut self, cap_height: usize) -> (r: VerifierCircuitTarget)
        ensures bframe(old(self), final(self)), final(self).sat() == old(self).sat(),
                r.id() == VkId::Witness,
    { unimplemented!() }
    #[verifier::external_body]
    pub fn add_virtual_proof_with_pis(&mut self, common: &CommonCircuitData<F, D>) -> (r: ProofWithPublicInputsTarget<D>)
        ensures bframe(old(self), final(self)), final(self).sat() == old(self).sat(),
                r.public_inputs@.len() == common.num_public_inputs,
    { unimplemented!() }
    // recursive_verifier.rs verify_proof: constrains (proof, verifier data) to be an accepting pair
    #[verifier::external_body]
    pub fn verify_proof<C: GenericConfig<D, F = F>>(&mut self, proof: &ProofWithPublicInputsTarget<D>, vd: &VerifierCircuitTarget, common: &CommonCircuitData<F, D>)
        ensures final(self).pis() == old(self).pis(), bext(old(self), final(self)),
                final(self).verified() == old(self).verified().push((proof.public_inputs@, vd.id())),
    { unimplemented!() }
}
/// TB-3 (idealised FRI/Plonk soundness): a satisfied circuit that verified a proof against a FIXED key has public inputs
/// accepted by that key's circuit
pub uninterp spec fn child_accepts(vk: int, pis: Seq<int>) -> bool;
#[verifier::external_body]
pub proof fn axiom_recursion_sound<F, const D: usize>(b: &CircuitBuilder<F, D>, k: int)
    requires b.sat(), 0 <= k < b.verified().len(), b.verified()[k].1 is Fixed,
    ensures child_accepts(b.verified()[k].1->Fixed_0, vals(b.verified()[k].0)),
{ }
