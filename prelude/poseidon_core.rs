// ---- prelude/poseidon_core.rs : TRUSTED contracts of qp-poseidon-core 3.1.0 (TB-7), transcribed from its source
pub const AMOUNT_QUANTIZATION_FACTOR: u128 = 10_000_000_000u128; // serialization.rs:28
pub const BYTES_PER_FELT: usize = 4; // serialization.rs:34
pub const FELTS_PER_U128: usize = 4;
pub const FELTS_PER_U64: usize = 2;
pub const POSEIDON2_OUTPUT: usize = 4;

/// injective 4-bytes-per-element encoding with a 0x01 terminator (serialization.rs bytes_to_u64s)
pub uninterp spec fn enc4(b: Seq<u8>) -> Seq<u64>;
/// its partial inverse (u64s_to_bytes): None for malformed element vectors
pub uninterp spec fn dec4(v: Seq<u64>) -> Option<Seq<u8>>;
/// TB-7 (dependency): decoding inverts encoding; every encoded element is a 32-bit limb
#[verifier::external_body]
pub broadcast proof fn axiom_enc4(b: Seq<u8>)
    ensures dec4(#[trigger] enc4(b)) == Some(b),
            enc4(b).len() == b.len() / 4 + 1,
            forall|i: int| 0 <= i < enc4(b).len() ==> enc4(b)[i] <= 0xFFFF_FFFF,
{ }
pub mod qp_poseidon_core {
    use crate::*;
    pub mod serialization {
        use crate::*;
        #[verifier::external_body]
        pub fn bytes_to_u64s(input: &[u8]) -> (r: Vec<u64>)
            ensures r@ == enc4(input@),
        { unimplemented!() }
        #[verifier::external_body]
        pub fn u64s_to_bytes(input: &[u64]) -> (r: Result<Vec<u8>, &'static str>)
            ensures r.is_ok() == dec4(input@).is_some(), r.is_ok() ==> r->Ok_0@ == dec4(input@).unwrap(),
        { unimplemented!() }
        /// serialization.rs:383 — 8 bytes per element, zero padded; Err iff some limb >= p
        #[verifier::external_body]
        pub fn bytes_to_felts_compact(input: &[u8]) -> (r: Result<Vec<super::Goldilocks>, &'static str>)
            ensures
                input@.len() % 8 == 0 ==> (r.is_ok() <==> forall|i: int| 0 <= i < input@.len() / 8 ==> le_u64(#[trigger] input@.subrange(8 * i, 8 * i + 8)) < P()),
                input@.len() % 8 == 0 && r.is_ok() ==> r->Ok_0@.len() == input@.len() / 8
                    && forall|i: int| 0 <= i < input@.len() / 8 ==> (#[trigger] r->Ok_0@[i]).v as int == le_u64(input@.subrange(8 * i, 8 * i + 8)),
        { unimplemented!() }
    }
    /// p3 Goldilocks element (canonical value)
    pub struct Goldilocks { pub v: u64 }

    /// TB-4b: native Poseidon2 sponge over felts, output as 32 bytes (4 canonical limbs, little endian)
    pub uninterp spec fn hash_bytes_spec(felts: Seq<int>) -> Seq<u8>;
    #[verifier::external_body]
    pub fn hash_to_bytes(felts: &[Goldilocks]) -> (r: [u8; 32])
        ensures r@ == hash_bytes_spec(Seq::new(felts@.len(), |i: int| felts@[i].v as int)),
    { unimplemented!() }
}
