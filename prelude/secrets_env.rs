// ---- prelude/secrets_env.rs : what surrounds the secret-handling APIs of wormhole/circuit (TB-12). Value-level models only:
// nothing here speaks about heap blocks, the allocator or compiler elision (C33's not-covered part).
/// plonky2 GoldilocksField: a public u64 limb (field/goldilocks_field.rs `pub struct GoldilocksField(pub u64)`)
#[derive(Clone, Copy)]
pub struct F(pub u64);
pub type Digest = [F; 4];
pub const POSEIDON2_OUTPUT: usize = 4;
pub const FELTS_PER_U64: usize = 2;
pub const FELTS_PER_U128: usize = 4;
/// zeroize 1.8.2: `Zeroize::zeroize` overwrites the value with zeros (volatile writes + fence; only the resulting VALUE is modelled)
pub trait Zeroize { spec fn zeroed(&self) -> bool; fn zeroize(&mut self) ensures final(self).zeroed(); }
impl Zeroize for [u8; 32] {
    open spec fn zeroed(&self) -> bool { self@ =~= Seq::new(32, |i: int| 0u8) }
    #[verifier::external_body]
    fn zeroize(&mut self) { unimplemented!() }
}
impl Zeroize for u64 {
    open spec fn zeroed(&self) -> bool { *self == 0 }
    #[verifier::external_body]
    fn zeroize(&mut self) { unimplemented!() }
}
/// zeroize::Zeroizing<T>: a wrapper that scrubs its payload on drop; only the wrapping is modelled
pub struct Zeroizing<T> { pub inner: T }
impl<T> Zeroizing<T> { pub fn new(v: T) -> (r: Self) ensures r.inner == v { Zeroizing { inner: v } } }
/// A Vec that remembers the capacity it was created with. `with_capacity` + appends that stay within it never reallocate, so no
/// block that held earlier contents is freed before the wrapper's drop-time scrub: appending beyond the reserved capacity is a
/// PRECONDITION violation here (C33: full-capacity buffers).
pub struct CapVec<T> { pub items: alloc::vec::Vec<T>, pub cap: Ghost<nat> }
impl<T> View for CapVec<T> { type V = Seq<T>; open spec fn view(&self) -> Seq<T> { self.items@ } }
impl<T: Copy> CapVec<T> {
    #[verifier::external_body]
    pub fn with_capacity(n: usize) -> (r: Self) ensures r@.len() == 0, r.cap@ == n { unimplemented!() }
    /// `v.extend(xs)` for a slice / array / Vec of Copy elements (rules N4 / N4d)
    #[verifier::external_body]
    pub fn extend_from_slice(&mut self, s: &[T])
        requires old(self)@.len() + s@.len() <= old(self).cap@,   // appended within the reserved capacity: no reallocation
        ensures final(self)@ == old(self)@ + s@, final(self).cap == old(self).cap,
    { unimplemented!() }
    #[verifier::external_body]
    pub fn push(&mut self, x: T)
        requires old(self)@.len() + 1 <= old(self).cap@,
        ensures final(self)@ == old(self)@.push(x), final(self).cap == old(self).cap,
    { unimplemented!() }
    /// `shrink_to_fit` / `shrink_to`: with spare capacity the allocator may move the contents to a smaller block and free the old one
    /// UNSCRUBBED; only on an exactly filled buffer is it a no-op. As with appends beyond the capacity, the reallocating case is a
    /// PRECONDITION violation here (C33).
    #[verifier::external_body]
    pub fn shrink_to_fit(&mut self)
        requires old(self)@.len() == old(self).cap@,
        ensures final(self)@ == old(self)@, final(self).cap == old(self).cap,
    { unimplemented!() }
    pub open spec fn spec_len(&self) -> usize { self.items@.len() as usize }
    #[verifier::when_used_as_spec(spec_len)]
    pub fn len(&self) -> (r: usize) ensures r == self@.len(), r == self.spec_len() { self.items.len() }
}
#[verifier::external_body]
pub fn bytes_to_digest(d: BytesDigest) -> (r: [F; 4]) { unimplemented!() }
#[verifier::external_body]
pub fn digest_to_bytes(d: [F; 4]) -> (r: BytesDigest) ensures digest_canonical(r.0@) { unimplemented!() }
#[verifier::external_body]
pub fn u64_to_felts(x: u64) -> (r: [F; 2]) { unimplemented!() }
/// common/src/serialization.rs: Ok exactly on two 32-bit limbs; the repository only calls it on limbs produced by u64_to_felts
#[verifier::external_body]
pub fn felts_to_u64(x: [F; 2]) -> (r: Result<u64, &'static str>) ensures r.is_ok() <==> limbs32(x) { unimplemented!() }
pub open spec fn limbs32(x: [F; 2]) -> bool { x@[0].0 <= 0xFFFF_FFFF && x@[1].0 <= 0xFFFF_FFFF }
/// 4-bytes-per-felt string encoding with terminator (unit serialization, C25): an 8-byte salt encodes to 3 felts and is within the cap
#[verifier::external_body]
pub fn string_to_felts(input: &str) -> (r: Result<alloc::vec::Vec<F>, &'static str>)
    ensures input@.len() == 8 ==> r.is_ok() && r->Ok_0@.len() == 3,
{ unimplemented!() }
pub struct HashOut { pub elements: [F; 4] }
pub struct Poseidon2Hash { }
impl Poseidon2Hash { #[verifier::external_body] pub fn hash_no_pad(input: &[F]) -> (r: HashOut) { unimplemented!() } }
impl core::ops::Deref for BytesDigest {
    type Target = [u8; 32];
    fn deref(&self) -> (r: &[u8; 32]) ensures *r == self.0 { &self.0 }
}
impl BytesDigest {
    /// wormhole/inputs: wraps bytes already validated at construction
    pub fn new_unchecked(b: [u8; 32]) -> (r: BytesDigest) ensures r.0 == b { BytesDigest(b) }
}
