// ---- prelude/serde.rs : serde / serde_json stubs (TB-7). Nothing is assumed about the VALUES a deserializer hands to a
// visitor: `next_element` returns arbitrary elements, so visitor postconditions hold for every input document.
pub uninterp spec fn byte_len(s: Seq<char>) -> nat;
pub assume_specification [String::len] (s: &String) -> (r: usize)
    ensures r == byte_len(s@);
// `str::len` is specified by vstd as `s.spec_bytes().len()`; the UTF-8 byte length is a function of the characters
#[verifier::external_body]
pub proof fn axiom_str_byte_len(s: &str)
    ensures s.spec_bytes().len() == byte_len(s@), byte_len(s@) <= usize::MAX, // a str never exceeds isize::MAX bytes
{ }
/// `s.chars().count()` (rule N22c): the number of characters; a UTF-8 encoded character occupies 1 to 4 bytes
#[verifier::external_body]
pub fn vchar_count(s: &str) -> (r: usize)
    ensures r == s@.len(), r <= byte_len(s@), byte_len(s@) <= 4 * r,
{ s.chars().count() }
// String::from(&str) copies the characters (alloc::string From<&str>)
#[verifier::external_body]
pub fn vstring_from(s: &str) -> (r: String)
    ensures r@ == s@,
{ String::from(s) }
#[verifier::external_body]
pub fn vstring() -> String { unimplemented!() }
pub use core::marker::PhantomData;
pub mod de { pub struct IgnoredAny { } pub trait Deserialize<'de>: Sized { } }
/// serde::de::Error (only `custom` is used)
pub trait Error: Sized { fn custom<T>(msg: T) -> Self; }
/// serde::de::SeqAccess: an arbitrary source of elements
pub trait SeqAccess<'de>: Sized {
    type Error: Error;
    fn next_element<T>(&mut self) -> Result<Option<T>, Self::Error>;
    fn size_hint(&self) -> Option<usize>;
}
pub mod serde_json {
    use crate::*;
    pub struct JsonError { }
    /// C35: parsing is only ever reached with a document within the raw cap (the precondition IS the property's first clause)
    #[verifier::external_body]
    pub fn from_str<T>(s: &str) -> (r: Result<T, JsonError>)
        requires byte_len(s@) <= 8 * 1024 * 1024,
    { unimplemented!() }
}
