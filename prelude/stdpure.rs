// ---- prelude/stdpure.rs : TRUSTED std specifications for the pure-function units (TB-6), from the std documentation
/// `&x[a..b]`: panics unless a <= b <= len (hence `requires`), otherwise the sub-slice
#[verifier::external_body]
pub fn vsub<T>(s: &[T], a: usize, b: usize) -> (r: &[T])
    requires a <= b <= s@.len(),
    ensures r@ == s@.subrange(a as int, b as int),
{ &s[a..b] }

/// the slice view of a range-indexable base: slices, arrays, Vec, and (declared next to the type) types whose Deref target is one of them
pub trait VAsSlice { type E; spec fn vsl(&self) -> Seq<Self::E>; }
impl<T> VAsSlice for [T] { type E = T; open spec fn vsl(&self) -> Seq<T> { self@ } }
impl<T, const N: usize> VAsSlice for [T; N] { type E = T; open spec fn vsl(&self) -> Seq<T> { self@ } }
impl<T> VAsSlice for Vec<T> { type E = T; open spec fn vsl(&self) -> Seq<T> { self@ } }
/// `x[a..b]` as a place compared with another (rule N21c): panics unless a <= b <= len
#[verifier::external_body]
pub fn vsub_any<S: VAsSlice + ?Sized>(s: &S, a: usize, b: usize) -> (r: &[S::E])
    requires a <= b <= s.vsl().len(),
    ensures r@ == s.vsl().subrange(a as int, b as int),
            a == 0 && b == s.vsl().len() ==> r@ == s.vsl(),      // x[..] is x (stated so that the full-range spelling needs no extensionality hint)
{ unimplemented!() }
#[verifier::external_body]
pub fn vlen_any<S: VAsSlice + ?Sized>(s: &S) -> (r: usize)
    ensures r == s.vsl().len(),
{ unimplemented!() }
/// element types whose `==` is value equality
pub trait VPrimEq {}
impl VPrimEq for u8 {} impl VPrimEq for u16 {} impl VPrimEq for u32 {} impl VPrimEq for u64 {} impl VPrimEq for usize {} impl VPrimEq for bool {}
/// `<[T] as PartialEq>::eq`: same length and element-wise equal
#[verifier::external_body]
pub fn vslice_eq<T: VPrimEq>(a: &[T], b: &[T]) -> (r: bool)
    ensures r == (a@ == b@),
{ unimplemented!() }

/// `vec![e; n]` (rule N32): `e` is evaluated once; the vector holds n copies of that one value
#[verifier::external_body]
pub fn vrepeat<T: Copy>(e: T, n: usize) -> (r: Vec<T>)
    ensures r@.len() == n, forall|i: int| 0 <= i < n ==> #[trigger] r@[i] == e,
{ unimplemented!() }

/// `x[a..b].copy_from_slice(y)`: panics unless a <= b <= len and y.len() == b - a
#[verifier::external_body]
pub fn vcopy_into<T: Copy, const N: usize>(x: &mut [T; N], a: usize, b: usize, y: &[T])
    requires a <= b <= N, y@.len() == b - a,
    ensures final(x)@.subrange(a as int, b as int) == y@,
            forall|k: int| (0 <= k < a || b <= k < N) ==> final(x)@[k] == old(x)@[k],
{ x[a..b].copy_from_slice(y) }

/// little-endian value of a byte string: b[from] + 256 * (rest)
pub open spec fn le_val(b: Seq<u8>, from: int) -> int
    decreases b.len() - from,
{
    if from < 0 || from >= b.len() { 0 } else { b[from] as int + 256 * le_val(b, from + 1) }
}
/// little-endian value of 8 bytes
pub open spec fn le_u64(b: Seq<u8>) -> int { le_val(b, 0) }
#[verifier::external_body]
pub fn vu64_from_le_bytes(b: [u8; 8]) -> (r: u64)
    ensures r as int == le_u64(b@),
{ u64::from_le_bytes(b) }
pub trait VLeBytes<const N: usize>: Sized {
    spec fn le_val(b: Seq<u8>) -> int;
    spec fn as_int(self) -> int;
    fn vto_le_bytes(self) -> (r: [u8; N])
        ensures Self::le_val(r@) == self.as_int();
}
impl VLeBytes<8> for u64 {
    open spec fn le_val(b: Seq<u8>) -> int { le_u64(b) }
    open spec fn as_int(self) -> int { self as int }
    #[verifier::external_body]
    fn vto_le_bytes(self) -> (r: [u8; 8]) { self.to_le_bytes() }
}
pub proof fn lemma_le_val_range(b: Seq<u8>, from: int)
    requires 0 <= from <= b.len(),
    ensures 0 <= le_val(b, from) < pow2i((8 * (b.len() - from)) as nat),
    decreases b.len() - from,
{
    vstd::arithmetic::power2::lemma2_to64();
    if from < b.len() {
        lemma_le_val_range(b, from + 1);
        vstd::arithmetic::power2::lemma_pow2_adds(8, (8 * (b.len() - from - 1)) as nat);
        let r = le_val(b, from + 1); let p = pow2i((8 * (b.len() - from - 1)) as nat);
        assert(b[from] as int + 256 * r < 256 * p) by (nonlinear_arith) requires 0 <= b[from] as int <= 255, 0 <= r < p;
    }
}
/// le_val is injective on equal-length byte strings
pub proof fn lemma_le_val_inj(a: Seq<u8>, b: Seq<u8>, from: int)
    requires a.len() == b.len(), 0 <= from <= a.len(), le_val(a, from) == le_val(b, from),
    ensures forall|k: int| from <= k < a.len() ==> a[k] == b[k],
    decreases a.len() - from,
{
    if from < a.len() {
        let ra = le_val(a, from + 1); let rb = le_val(b, from + 1);
        let x = le_val(a, from);
        vstd::arithmetic::div_mod::lemma_fundamental_div_mod_converse(x, 256, ra, a[from] as int);
        vstd::arithmetic::div_mod::lemma_fundamental_div_mod_converse(x, 256, rb, b[from] as int);
        lemma_le_val_inj(a, b, from + 1);
    }
}
pub proof fn lemma_le_u64_range(b: Seq<u8>)
    requires b.len() == 8,
    ensures 0 <= le_u64(b) < 0x1_0000_0000_0000_0000,
{ lemma_le_val_range(b, 0); lemma_pow2_values(); }
pub proof fn lemma_le_u64_inj(a: Seq<u8>, b: Seq<u8>)
    requires a.len() == 8, b.len() == 8, le_u64(a) == le_u64(b),
    ensures a =~= b,
{ lemma_le_val_inj(a, b, 0); }
/// `.context(..)` / `.with_context(..)` (anyhow::Context): keeps Ok-ness and the Ok value, replaces the error
pub trait VCtx<T>: Sized {
    spec fn okv(self) -> Option<T>;
    fn vctx(self) -> (r: Result<T, Error>)
        ensures r.is_ok() == self.okv().is_some(), r.is_ok() ==> r->Ok_0 == self.okv().unwrap();
}
impl<T, E> VCtx<T> for core::result::Result<T, E> {
    open spec fn okv(self) -> Option<T> { match self { Ok(v) => Some(v), Err(_) => None } }
    #[verifier::external_body]
    fn vctx(self) -> (r: Result<T, Error>) { unimplemented!() }
}
impl<T> VCtx<T> for Option<T> {
    open spec fn okv(self) -> Option<T> { self }
    #[verifier::external_body]
    fn vctx(self) -> (r: Result<T, Error>) { unimplemented!() }
}

pub struct VConvError { }
impl core::fmt::Debug for VConvError { #[verifier::external_body] fn fmt(&self, f: &mut core::fmt::Formatter<'_>) -> core::fmt::Result { unimplemented!() } }
/// N19: `.try_into()` / `T::try_from(e)`: one trusted spec per (source, target) pair
pub trait VTryInto<T>: Sized {
    spec fn conv(self) -> Option<T>;
    fn vtry_into(self) -> (r: Result<T, VConvError>)
        ensures r.is_ok() == self.conv().is_some(), r.is_ok() ==> r->Ok_0 == self.conv().unwrap();
}
impl VTryInto<u32> for u64 {
    open spec fn conv(self) -> Option<u32> { if self <= 0xFFFF_FFFF { Some(self as u32) } else { None } }
    #[verifier::external_body]
    fn vtry_into(self) -> (r: Result<u32, VConvError>) { unimplemented!() }
}
impl VTryInto<u32> for usize {
    open spec fn conv(self) -> Option<u32> { if self <= 0xFFFF_FFFF { Some(self as u32) } else { None } }
    #[verifier::external_body]
    fn vtry_into(self) -> (r: Result<u32, VConvError>) { unimplemented!() }
}
// &[T] -> [T; N]: Ok iff len == N, same elements (core::array TryFrom<&[T]> for [T; N], T: Copy)
impl<'a, T: Copy, const N: usize> VTryInto<[T; N]> for &'a [T] {
    open spec fn conv(self) -> Option<[T; N]> { if self@.len() == N { Some(choose|a: [T; N]| a@ == self@) } else { None } }
    #[verifier::external_body]
    fn vtry_into(self) -> (r: Result<[T; N], VConvError>) { unimplemented!() }
}
/// arrays of length N are in bijection with sequences of length N
#[verifier::external_body]
pub proof fn axiom_array_of_seq<T, const N: usize>(s: Seq<T>)
    requires s.len() == N,
    ensures exists|a: [T; N]| a@ == s,
{ }
/// TB-6: `==` on byte arrays (core::array PartialEq) is element-wise equality; vstd specifies the exec result as `eq_spec`
#[verifier::external_body]
pub broadcast proof fn axiom_u8_array_eq_spec<const N: usize>(a: [u8; N], b: [u8; N])
    ensures #[trigger] vstd::std_specs::cmp::PartialEqSpec::eq_spec(&a, &b) == (a@ == b@),
{ }
