// ---- prelude/recursion.rs : proof targets and the concrete field / config types (TB-2/TB-3)
pub struct GoldilocksField { pub v: u64 }
impl Clone for GoldilocksField { #[verifier::external_body] fn clone(&self) -> (r: Self) ensures r == *self { GoldilocksField { v: self.v } } }
impl Copy for GoldilocksField { }
impl RichField for GoldilocksField {
    // canonical representative
    uninterp spec fn fv(self) -> int;
    #[verifier::external_body]
    fn from_canonical_u64(x: u64) -> (r: Self) { unimplemented!() }
    #[verifier::external_body]
    fn from_canonical_u32(x: u32) -> (r: Self) { unimplemented!() }
    #[verifier::external_body]
    fn from_canonical_usize(x: usize) -> (r: Self) { unimplemented!() }
    #[verifier::external_body]
    fn from_noncanonical_u64(x: u64) -> (r: Self) { unimplemented!() }
    #[verifier::external_body]
    fn to_canonical_u64(&self) -> (r: u64) { unimplemented!() }
    #[verifier::external_body]
    fn to_noncanonical_u64(&self) -> (r: u64) { unimplemented!() }
}
impl<const D: usize> Extendable<D> for GoldilocksField { }
pub struct PoseidonGoldilocksConfig { }

/// plonky2 plonk/proof.rs ProofWithPublicInputsTarget: only `public_inputs` is read by the repository
pub struct ProofWithPublicInputsTarget<const D: usize> {
    pub public_inputs: Vec<Target>,
    pub proof_id: Ghost<int>,
}
