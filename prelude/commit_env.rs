// ---- prelude/commit_env.rs : what surrounds the batch provers' commit() (TB-7c). The witness object is opaque; the two
// witness-filling functions record WHAT they were given in a ghost field of the witness, so commit's postcondition can speak
// about the committed vector. rand is modelled only as far as a permutation (uniformity is not expressible, C15 not covered).
impl<F> PartialWitness<F> {
    /// what fill_private_batch_witness was handed: (proofs, dummy nullifier preimages)
    pub uninterp spec fn pb_filled(&self) -> Option<(Seq<ProofWithPublicInputs<GoldilocksField, PoseidonGoldilocksConfig, 2>>, Seq<[GoldilocksField; 4]>)>;
    /// what fill_public_batch_witness was handed: (proofs, aggregator address felts)
    pub uninterp spec fn pub_filled(&self) -> Option<(Seq<ProofWithPublicInputs<GoldilocksField, PoseidonGoldilocksConfig, 2>>, [GoldilocksField; 4])>;
}
/// the witness-filling functions' own refusals (malformed proof shape, a witness conflict): uninterpreted, not under contract
pub uninterp spec fn pb_fill_refuses(proofs: Seq<ProofWithPublicInputs<GoldilocksField, PoseidonGoldilocksConfig, 2>>, pre: Seq<[GoldilocksField; 4]>) -> bool;
pub uninterp spec fn pub_fill_refuses(proofs: Seq<ProofWithPublicInputs<GoldilocksField, PoseidonGoldilocksConfig, 2>>, addr: [GoldilocksField; 4]) -> bool;
/// private_batch/circuit/witness.rs: fills the proof targets and preimage targets slot by slot; may fail on malformed proof shape
#[verifier::external_body]
pub fn fill_private_batch_witness(pw: &mut PartialWitness<F>, targets: &PrivateBatchCircuitTargets, proofs: &[ProofWithPublicInputs<F, C, D>], pre: &[[F; 4]]) -> (r: Result<()>)
    ensures r.is_ok() ==> final(pw).pb_filled() == Some((proofs@, pre@)),
            r.is_err() ==> pb_fill_refuses(proofs@, pre@),
{ unimplemented!() }
#[verifier::external_body]
pub fn fill_public_batch_witness(pw: &mut PartialWitness<F>, targets: &PublicBatchCircuitTargets, proofs: &[ProofWithPublicInputs<F, C, D>], addr: [F; 4]) -> (r: Result<()>)
    ensures r.is_ok() ==> final(pw).pub_filled() == Some((proofs@, addr)),
            r.is_err() ==> pub_fill_refuses(proofs@, addr),
{ unimplemented!() }
/// rand::thread_rng / SliceRandom::shuffle (TB-7c): the slice becomes the generator's permutation of its old contents. Which permutation
/// is an uninterpreted function of the generator state, so "the committed order is what rand's shuffle made of the WHOLE padded vector" is
/// provable, while the DISTRIBUTION of that permutation (uniformity) is rand's and is assumed, not modelled.
pub struct ThreadRng { pub state: Ghost<int> }
pub mod rand { #[verifier::external_body] pub fn thread_rng() -> crate::ThreadRng { unimplemented!() } }
pub uninterp spec fn shuffled_by(g: int, s: Seq<ProofWithPublicInputs<GoldilocksField, PoseidonGoldilocksConfig, 2>>) -> Seq<ProofWithPublicInputs<GoldilocksField, PoseidonGoldilocksConfig, 2>>;
#[verifier::external_body]
pub broadcast proof fn axiom_shuffle_is_permutation(g: int, s: Seq<ProofWithPublicInputs<GoldilocksField, PoseidonGoldilocksConfig, 2>>)
    ensures (#[trigger] shuffled_by(g, s)).to_multiset() == s.to_multiset(), shuffled_by(g, s).len() == s.len(),
{ }
pub trait VShuffle { spec fn vsh(&self) -> Seq<ProofWithPublicInputs<GoldilocksField, PoseidonGoldilocksConfig, 2>>; fn shuffle(&mut self, rng: &mut ThreadRng) ensures final(self).vsh() == shuffled_by(old(rng).state@, old(self).vsh()); }
impl VShuffle for Vec<ProofWithPublicInputs<GoldilocksField, PoseidonGoldilocksConfig, 2>> {
    open spec fn vsh(&self) -> Seq<ProofWithPublicInputs<GoldilocksField, PoseidonGoldilocksConfig, 2>> { self@ }
    #[verifier::external_body]
    fn shuffle(&mut self, rng: &mut ThreadRng) { unimplemented!() }
}
/// the process's randomness as an effect (rule N14): every dummy-preimage draw is logged, so "one fresh draw per slot" is a statement about the log
#[verifier::external_body]
pub struct RngWorld { _p: u8 }
impl RngWorld {
    /// every preimage drawn so far, in order
    pub uninterp spec fn draws(&self) -> Seq<BytesDigest>;
    /// generate_random_nullifier_preimage(): 32 random bytes re-drawn until they are a canonical digest; one entry of the log
    #[verifier::external_body]
    pub fn draw(&mut self) -> (r: BytesDigest)
        ensures digest_canonical(r.0@), final(self).draws() == old(self).draws().push(r),
    { unimplemented!() }
}
/// common/src/utils.rs: 32 random bytes re-drawn until they are a canonical digest (loop around rand; only the result's validity is specified)
#[verifier::external_body]
pub fn generate_random_nullifier_preimage() -> (r: BytesDigest)
    ensures digest_canonical(r.0@),
{ unimplemented!() }
