// ---- prelude/config.rs : plonky2 CircuitConfig / FriConfig, only the fields the repository reads (plonk/circuit_data.rs, fri/mod.rs)
pub struct FriConfig { pub rate_bits: usize, pub cap_height: usize, pub proof_of_work_bits: u32, pub num_query_rounds: usize }
pub struct CircuitConfig {
    pub num_wires: usize, pub num_routed_wires: usize, pub num_constants: usize, pub use_base_arithmetic_gate: bool,
    pub security_bits: usize, pub num_challenges: usize, pub zero_knowledge: bool, pub max_quotient_degree_factor: usize,
    pub fri_config: FriConfig,
}
/// least r with n <= 2^r  (ceil(log2 n)) for n >= 1
pub open spec fn clog2(n: int, r: int) -> bool { 0 <= r <= 64 && n <= pow2i(r as nat) && (r > 0 ==> pow2i((r - 1) as nat) < n) }
/// C28: the structural policy, transcribed from the property statement
pub open spec fn cfg_policy(c: &CircuitConfig) -> bool {
    &&& c.num_challenges > 0 && c.security_bits > 0 && c.fri_config.num_query_rounds > 0
    &&& c.num_wires >= 135
    &&& 37 <= c.num_routed_wires <= c.num_wires
    &&& c.max_quotient_degree_factor >= 7
    &&& c.fri_config.rate_bits <= 8 && c.fri_config.cap_height <= 8
    &&& (c.max_quotient_degree_factor as int) <= pow2i(c.fri_config.rate_bits as nat) // rate_bits >= ceil(log2(quotient factor))
}
