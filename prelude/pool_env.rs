// ---- prelude/pool_env.rs : std collections, time and the admission verifier as seen by the proof pool (TB-11).
// BTreeMap is a MODEL type of this unit (std's has no Verus specification): its contracts are transcribed from the std docs.
// HashMap / HashSet are std's own types with vstd's specifications. Instant / Duration are model types over an abstract clock.
#[verifier::external_body]
#[verifier::reject_recursive_types(K)]
#[verifier::accept_recursive_types(V)]
pub struct BTreeMap<K, V> { _p: core::marker::PhantomData<(K, V)> }
impl<K, V> View for BTreeMap<K, V> {
    type V = Map<K, V>;
    uninterp spec fn view(&self) -> Map<K, V>;
}
/// derived `Default` of a value type, as a predicate (what `or_default()` inserts)
pub uninterp spec fn is_default<V>(v: V) -> bool;
impl<K, V> BTreeMap<K, V> {
    #[verifier::external_body]
    pub fn new() -> (r: Self) ensures r@ == Map::<K, V>::empty(), { unimplemented!() }
    #[verifier::external_body]
    pub fn len(&self) -> (r: usize) ensures r == self@.len(), self@.dom().finite(), { unimplemented!() }
    #[verifier::external_body]
    pub fn is_empty(&self) -> (r: bool) ensures r == (self@.len() == 0), self@.dom().finite(), { unimplemented!() }
    #[verifier::external_body]
    pub fn contains_key(&self, k: &K) -> (r: bool) ensures r == self@.contains_key(*k), { unimplemented!() }
    #[verifier::external_body]
    pub fn get_mut(&mut self, k: &K) -> (r: Option<&mut V>)
        ensures
            r is Some <==> old(self)@.contains_key(*k),
            r is Some ==> *r->Some_0 == old(self)@[*k] && final(self)@ == old(self)@.insert(*k, *final(r->Some_0)),
            r is None ==> final(self)@ == old(self)@,
    { unimplemented!() }
    /// `entry(k).or_default()` (rule N16b): the value at k, inserting the type's default first when absent
    #[verifier::external_body]
    pub fn entry_or_default(&mut self, k: K) -> (r: &mut V)
        ensures
            old(self)@.contains_key(k) ==> *r == old(self)@[k],
            !old(self)@.contains_key(k) ==> is_default(*r),
            final(self)@ == old(self)@.insert(k, *final(r)),
    { unimplemented!() }
    /// snapshot of the keys (rule N7m / `keys().copied().collect()`): every key exactly once; the iteration ORDER is left
    /// unspecified (weaker than std's ascending order, so proofs hold for any order)
    #[verifier::external_body]
    pub fn vkeys(&self) -> (r: Vec<K>)
        ensures r@.no_duplicates(), forall|k: K| r@.contains(k) <==> self@.contains_key(k), forall|i: int| 0 <= i < r@.len() ==> self@.contains_key(#[trigger] r@[i]),
                self@.dom().finite(), r@.len() == self@.len(),
    { unimplemented!() }
    #[verifier::external_body]
    pub fn remove(&mut self, k: &K) -> (r: Option<V>)
        ensures
            r is Some <==> old(self)@.contains_key(*k),
            r is Some ==> r->Some_0 == old(self)@[*k],
            final(self)@ == old(self)@.remove(*k),
    { unimplemented!() }
}
// ---- time
#[derive(Clone, Copy)]
pub struct Duration { pub d: u64 }
#[derive(Clone, Copy)]
pub struct Instant { pub t: u64 }
impl PartialEq for Duration { #[verifier::external_body] fn eq(&self, o: &Self) -> bool { self.d == o.d } }
impl vstd::std_specs::cmp::PartialEqSpecImpl for Duration {
    open spec fn obeys_eq_spec() -> bool { true }
    open spec fn eq_spec(&self, o: &Self) -> bool { self.d == o.d }
}
impl PartialOrd for Duration { #[verifier::external_body] fn partial_cmp(&self, o: &Self) -> Option<core::cmp::Ordering> { self.d.partial_cmp(&o.d) } }
impl vstd::std_specs::cmp::PartialOrdSpecImpl for Duration {
    open spec fn obeys_partial_cmp_spec() -> bool { true }
    open spec fn partial_cmp_spec(&self, o: &Self) -> Option<core::cmp::Ordering> {
        if self.d < o.d { Some(core::cmp::Ordering::Less) } else if self.d == o.d { Some(core::cmp::Ordering::Equal) } else { Some(core::cmp::Ordering::Greater) }
    }
}
pub open spec fn sat_sub(a: u64, b: u64) -> u64 { if a >= b { (a - b) as u64 } else { 0 } }
impl Duration {
    pub fn is_zero(&self) -> (r: bool) ensures r == (self.d == 0), { self.d == 0 }
    /// std Duration::as_secs / as_millis: whole units, truncating. The model's `d` is the duration in NANOSECONDS (std holds u64 seconds + u32
    /// nanoseconds; durations beyond u64 nanoseconds, about 584 years, are outside the model)
    pub fn as_secs(&self) -> (r: u64) ensures r == self.d / 1_000_000_000, { self.d / 1_000_000_000 }
    pub fn as_millis(&self) -> (r: u128) ensures r == self.d / 1_000_000, { (self.d / 1_000_000) as u128 }
}
impl Instant {
    /// std: `duration_since` saturates to zero when `earlier` is later (since Rust 1.60)
    pub fn duration_since(&self, earlier: Instant) -> (r: Duration) ensures r.d == sat_sub(self.t, earlier.t), { Duration { d: if self.t >= earlier.t { self.t - earlier.t } else { 0 } } }
    pub fn saturating_duration_since(&self, earlier: Instant) -> (r: Duration) ensures r.d == sat_sub(self.t, earlier.t), { Duration { d: if self.t >= earlier.t { self.t - earlier.t } else { 0 } } }
}
/// the pool's environment: a monotone clock and the log of admission verifications (N14 effect threading)
#[verifier::external_body]
pub struct PoolWorld { _p: u8 }
impl PoolWorld {
    pub uninterp spec fn time(&self) -> u64;
    /// every clock reading, in order
    pub uninterp spec fn nows(&self) -> Seq<u64>;
    /// the time of every cryptographic verification ATTEMPT, in order
    pub uninterp spec fn verifies(&self) -> Seq<u64>;
    #[verifier::external_body]
    pub fn now(&mut self) -> (r: Instant)
        ensures r.t >= old(self).time(), final(self).time() == r.t, final(self).nows() == old(self).nows().push(r.t),
                final(self).verifies() == old(self).verifies(),
    { unimplemented!() }
    /// `self.verifier.verify(proof)`: an attempt is logged whether or not it succeeds
    #[verifier::external_body]
    pub fn verify(&mut self, v: &VerifierCircuitData<F, C, D>, p: ProofWithPublicInputs<F, C, D>) -> (r: Result<()>)
        ensures r.is_ok() <==> native_accepts(vk_of(&v.verifier_only), pvals(&p), p.body@),
                final(self).verifies() == old(self).verifies().push(old(self).time()),
                final(self).time() == old(self).time(), final(self).nows() == old(self).nows(),
    { unimplemented!() }
}
/// elements of a std HashSet as a Vec (iteration, rule N2s): every element exactly once; the ORDER is unspecified
#[verifier::external_body]
pub fn vset_elems<T: Copy>(s: &HashSet<T>) -> (r: Vec<T>)
    ensures r@.no_duplicates(), forall|x: T| r@.contains(x) <==> s@.contains(x), forall|i: int| 0 <= i < r@.len() ==> s@.contains(#[trigger] r@[i]),
            s@.finite(), r@.len() == s@.len(),
{ unimplemented!() }
/// std: `Option<&T>::copied()` maps `Some(&v)` to `Some(v)` and `None` to `None`
pub assume_specification<'a, T: Copy>[ Option::<&'a T>::copied ](o: Option<&'a T>) -> (r: Option<T>)
    ensures r == (match o { Some(v) => Some(*v), None => None }),
;
// std: `Instant + Duration` / `Instant += Duration` advance the instant and panic on overflow (model: u64 clock)
impl vstd::std_specs::ops::AddAssignSpecImpl<Duration> for Instant {
    open spec fn obeys_add_assign_spec() -> bool { true }
    open spec fn add_assign_req(&self, rhs: Duration) -> bool { self.t + rhs.d <= u64::MAX }
    open spec fn add_assign_spec(&self, rhs: Duration) -> &Instant { &Instant { t: (self.t + rhs.d) as u64 } }
}
impl core::ops::AddAssign<Duration> for Instant {
    fn add_assign(&mut self, rhs: Duration) { self.t = self.t + rhs.d; }
}
impl vstd::std_specs::ops::AddSpecImpl<Duration> for Instant {
    open spec fn obeys_add_spec() -> bool { true }
    open spec fn add_req(self, rhs: Duration) -> bool { self.t + rhs.d <= u64::MAX }
    open spec fn add_spec(self, rhs: Duration) -> Instant { Instant { t: (self.t + rhs.d) as u64 } }
}
impl core::ops::Add<Duration> for Instant {
    type Output = Instant;
    fn add(self, rhs: Duration) -> (r: Instant) { Instant { t: self.t + rhs.d } }
}
impl<K, V> BTreeMap<K, V> {
    #[verifier::external_body]
    pub fn get(&self, k: &K) -> (r: Option<&V>)
        ensures r is Some <==> self@.contains_key(*k), r is Some ==> *r->Some_0 == self@[*k],
    { unimplemented!() }
}
/// entries of the map as a Vec of (key, &value) (iteration `m.iter()`, rule N2s): every entry exactly once; ORDER unspecified
#[verifier::external_body]
pub fn ventries<'a, K: Copy, V>(m: &'a BTreeMap<K, V>) -> (r: Vec<(K, &'a V)>)
    ensures
        forall|i: int, j: int| 0 <= i < j < r@.len() ==> r@[i].0 != r@[j].0,
        forall|i: int| 0 <= i < r@.len() ==> m@.contains_key(#[trigger] r@[i].0) && *r@[i].1 == m@[r@[i].0],
        forall|k: K| m@.contains_key(k) ==> exists|i: int| 0 <= i < r@.len() && #[trigger] r@[i].0 == k,
        m@.dom().finite(), r@.len() == m@.len(),
{ unimplemented!() }
/// N8e: `Option::unwrap_or_default()` per payload type
pub trait VUnwrapOrDefault<T> { fn vunwrap_or_default(self) -> T; }
impl<T> VUnwrapOrDefault<Vec<T>> for Option<Vec<T>> {
    /// std: Vec's Default is the empty vector
    fn vunwrap_or_default(self) -> (r: Vec<T>)
        ensures r == (match self { Some(v) => v, None => r }), self is None ==> r@.len() == 0,
    { match self { Some(v) => v, None => Vec::new() } }
}
impl VUnwrapOrDefault<Duration> for Option<Duration> {
    /// std: Duration's Default is the zero duration
    fn vunwrap_or_default(self) -> (r: Duration)
        ensures r.d == (match self { Some(v) => v.d, None => 0 }),
    { match self { Some(v) => v, None => Duration { d: 0 } } }
}
