// ---- prelude/vassert.rs : assert!/panic! targets of rule N9 (a reachable panic is an obligation)
pub fn vassert(c: bool)
    requires c,
{ }
#[verifier::external_body]
pub fn vpanic() -> !
    requires false,
{ unimplemented!() }
