// ---- prelude/builder.rs : TRUSTED contracts for the Plonky2 circuit builder (TB-2), transcribed from
// qp-plonky2-1.5.5 (file:line given per method). `val(t)` is the arbitrary-but-fixed witness W: it is
// uninterpreted, so every fact proved below holds for ALL witnesses, including adversarial hint wires.
// `sat()` = "W satisfies every constraint emitted so far". Contracts only state what the gate constrains.

#[derive(Clone, Copy)]
pub struct Target { pub id: usize }

pub uninterp spec fn val(t: Target) -> int;

// TB-1: a wire holds a canonical Goldilocks element
#[verifier::external_body]
pub broadcast proof fn axiom_val_in_field(t: Target)
    ensures 0 <= #[trigger] val(t) < 0xFFFF_FFFF_0000_0001,
{ }

#[derive(Clone, Copy)]
pub struct BoolTarget { pub target: Target }

impl BoolTarget {
    // plonky2 iop/target.rs: BoolTarget::new_unsafe adds no constraint
    pub fn new_unsafe(t: Target) -> (r: BoolTarget)
        ensures r.target == t,
    { BoolTarget { target: t } }
}

#[derive(Clone, Copy)]
pub struct HashOutTarget { pub elements: [Target; 4] }

/// left folds of add / mul over the values of a target sequence (what add_many / mul_many constrain)
pub open spec fn fsum_targets(ts: Seq<Target>) -> int decreases ts.len() { if ts.len() == 0 { 0 } else { fadd(fsum_targets(ts.drop_last()), val(ts.last())) } }
pub open spec fn fprod_targets(ts: Seq<Target>) -> int decreases ts.len() { if ts.len() == 0 { 1 } else { fmul(fprod_targets(ts.drop_last()), val(ts.last())) } }
pub open spec fn vals(s: Seq<Target>) -> Seq<int> { Seq::new(s.len(), |i: int| val(s[i])) }
pub open spec fn bvals(s: Seq<BoolTarget>) -> Seq<int> { Seq::new(s.len(), |i: int| val(s[i].target)) }
pub open spec fn hvals(h: HashOutTarget) -> Seq<int> { vals(h.elements@) }

// TB-4: Poseidon2 sponge without padding, as a mathematical function of the whole input sequence.
pub uninterp spec fn H(s: Seq<int>) -> Seq<int>;
#[verifier::external_body]
pub broadcast proof fn axiom_H_shape(s: Seq<int>)
    ensures (#[trigger] H(s)).len() == 4, forall|i: int| 0 <= i < 4 ==> in_field(#[trigger] H(s)[i]),
{ }

/// Σ val(bits[i])·2^(i-from) for i in from..bits.len()   (little-endian bit weight)
pub open spec fn bits_sum_from(bits: Seq<int>, from: int) -> int
    decreases bits.len() - from,
{
    if from >= bits.len() || from < 0 { 0 } else { bits[from] + 2 * bits_sum_from(bits, from + 1) }
}

pub open spec fn all_bool(bits: Seq<int>) -> bool { forall|i: int| 0 <= i < bits.len() ==> is_bool(#[trigger] bits[i]) }

/// "v passed an n-bit range check": boolean limbs whose weighted sum is CONGRUENT to v (what split_le constrains)
pub open spec fn rc_ok(v: int, n: nat) -> bool {
    exists|bits: Seq<int>| #[trigger] all_bool(bits) && bits.len() == n && bits_sum_from(bits, 0) % P() == v
}

pub trait RichField: Sized + Copy {
    spec fn fv(self) -> int;
    // plonky2 field/types.rs: from_canonical_* debug-assert n < ORDER; callers must pass canonical values
    fn from_canonical_u64(x: u64) -> (r: Self)
        requires (x as int) < P(),
        ensures r.fv() == x as int;
    fn from_canonical_u32(x: u32) -> (r: Self)
        ensures r.fv() == x as int;
    fn from_canonical_usize(x: usize) -> (r: Self)
        requires (x as int) < P(),
        ensures r.fv() == x as int;
    fn from_noncanonical_u64(x: u64) -> (r: Self)
        ensures r.fv() == (x as int) % P();
    fn to_canonical_u64(&self) -> (r: u64)
        ensures r as int == self.fv(), (r as int) < P();
    // plonky2 field/types.rs PrimeField64::to_noncanonical_u64: the stored representative — some u64 congruent to the value, NOT reduced
    fn to_noncanonical_u64(&self) -> (r: u64)
        ensures (r as int) % P() == self.fv();
}
/// to_canonical_u64 exists for every field value, so fv() is a canonical u64
pub proof fn lemma_fv_range<FF: RichField>(f: FF)
    ensures 0 <= f.fv() < 0x1_0000_0000_0000_0000,
{ admit_fv_range(f); }
#[verifier::external_body]
pub proof fn admit_fv_range<FF: RichField>(f: FF)
    ensures 0 <= f.fv() < 0xFFFF_FFFF_0000_0001,
{ } // TB-1: field values are canonical
pub trait Extendable<const D: usize> { }
pub trait AlgebraicHasher<F> { }
pub struct Poseidon2Hash { }
impl<F> AlgebraicHasher<F> for Poseidon2Hash { }

#[verifier::external_body]
#[verifier::reject_recursive_types(F)]
pub struct CircuitBuilder<F, const D: usize> { _p: core::marker::PhantomData<F> }

impl<F, const D: usize> CircuitBuilder<F, D> {
    /// the fixed witness satisfies every constraint emitted so far
    pub uninterp spec fn sat(&self) -> bool;
    /// registered public inputs, in registration order
    pub uninterp spec fn pis(&self) -> Seq<Target>;
    /// (public-input targets of a child proof, key it is verified against), in verification order (TB-3, prelude/verifier.rs)
    pub uninterp spec fn verified(&self) -> Seq<(Seq<Target>, VkId)>;
}
/// abstract identity of the verifier key a child proof is checked against: baked constants of a given key, or witness wires
#[derive(PartialEq, Eq)]
pub enum VkId { Fixed(int), Witness }

/// nothing observable except the constraint set changed
/// TB-5 (honest mode): "the wire assignment `val` is the one the gates' witness generators compute from the input wires". Under
/// honest(), a computing gadget defines its output unconditionally and cannot make the constraint system fail; an asserting gadget
/// (connect, range checks, ...) turns `sat` into `old.sat && its condition`. Used only for the completeness (<=) directions.
pub uninterp spec fn honest() -> bool;
/// guard of VALUE facts: they hold for every satisfying witness and (TB-5) for the honest witness whether or not it satisfies
pub open spec fn lv<F, const D: usize>(b: &CircuitBuilder<F, D>) -> bool { b.sat() || honest() }
pub open spec fn bframe<F, const D: usize>(o: &CircuitBuilder<F, D>, n: &CircuitBuilder<F, D>) -> bool {
    n.pis() == o.pis() && n.verified() == o.verified()
}
/// new constraint set extends the old one
pub open spec fn bext<F, const D: usize>(o: &CircuitBuilder<F, D>, n: &CircuitBuilder<F, D>) -> bool {
    n.sat() ==> o.sat()
}

impl<F: RichField + Extendable<D>, const D: usize> CircuitBuilder<F, D> {
    // --- constants: circuit_builder.rs constant()/zero()/one(); value fixed by a ConstantGate
    #[verifier::external_body]
    pub fn constant(&mut self, c: F) -> (r: Target)
        ensures bframe(old(self), final(self)), bext(old(self), final(self)),
                final(self).sat() ==> val(r) == c.fv(),
                honest() ==> final(self).sat() == old(self).sat(),   // TB-5: a computing gadget's own constraints hold for the generators' witness
                honest() ==> val(r) == c.fv(),
    { unimplemented!() }
    #[verifier::external_body]
    pub fn zero(&mut self) -> (r: Target)
        ensures bframe(old(self), final(self)), bext(old(self), final(self)),
                final(self).sat() ==> val(r) == 0,
                honest() ==> final(self).sat() == old(self).sat(),   // TB-5: a computing gadget's own constraints hold for the generators' witness
                honest() ==> val(r) == 0,
    { unimplemented!() }
    #[verifier::external_body]
    pub fn one(&mut self) -> (r: Target)
        ensures bframe(old(self), final(self)), bext(old(self), final(self)),
                final(self).sat() ==> val(r) == 1,
                honest() ==> final(self).sat() == old(self).sat(),   // TB-5: a computing gadget's own constraints hold for the generators' witness
                honest() ==> val(r) == 1,
    { unimplemented!() }
    /// plonky2 circuit_builder.rs neg_one(): the constant -1 of the FIELD, i.e. p - 1 (not 2^32 - 1 or 2^64 - 1)
    #[verifier::external_body]
    pub fn neg_one(&mut self) -> (r: Target)
        ensures bframe(old(self), final(self)), bext(old(self), final(self)),
                final(self).sat() ==> val(r) == P() - 1,
                honest() ==> final(self).sat() == old(self).sat(),
                honest() ==> val(r) == P() - 1,
    { unimplemented!() }
    #[verifier::external_body]
    pub fn _false(&mut self) -> (r: BoolTarget)
        ensures bframe(old(self), final(self)), bext(old(self), final(self)),
                final(self).sat() ==> val(r.target) == 0,
                honest() ==> final(self).sat() == old(self).sat(),   // TB-5: a computing gadget's own constraints hold for the generators' witness
                honest() ==> val(r.target) == 0,
    { unimplemented!() }
    #[verifier::external_body]
    pub fn _true(&mut self) -> (r: BoolTarget)
        ensures bframe(old(self), final(self)), bext(old(self), final(self)),
                final(self).sat() ==> val(r.target) == 1,
                honest() ==> final(self).sat() == old(self).sat(),   // TB-5: a computing gadget's own constraints hold for the generators' witness
                honest() ==> val(r.target) == 1,
    { unimplemented!() }
    #[verifier::external_body]
    pub fn constant_bool(&mut self, b: bool) -> (r: BoolTarget)
        ensures bframe(old(self), final(self)), bext(old(self), final(self)),
                final(self).sat() ==> val(r.target) == b2i(b),
                honest() ==> final(self).sat() == old(self).sat(),   // TB-5: a computing gadget's own constraints hold for the generators' witness
                honest() ==> val(r.target) == b2i(b),
    { unimplemented!() }

    // --- arithmetic: gadgets/arithmetic.rs (ArithmeticGate: c0*x*y + c1*z)
    #[verifier::external_body]
    pub fn add(&mut self, a: Target, b: Target) -> (r: Target)
        ensures bframe(old(self), final(self)), bext(old(self), final(self)),
                final(self).sat() ==> val(r) == fadd(val(a), val(b)),
                honest() ==> final(self).sat() == old(self).sat(),   // TB-5: a computing gadget's own constraints hold for the generators' witness
                honest() ==> val(r) == fadd(val(a), val(b)),
    { unimplemented!() }
    /// gadgets/arithmetic.rs:200 `terms.fold(zero, |acc, t| add(acc, t))` (rule N4c passes the iterated sequence)
    #[verifier::external_body]
    pub fn add_many(&mut self, terms: &[Target]) -> (r: Target)
        ensures bframe(old(self), final(self)), bext(old(self), final(self)),
                final(self).sat() ==> val(r) == fsum_targets(terms@),
                honest() ==> final(self).sat() == old(self).sat(),
                honest() ==> val(r) == fsum_targets(terms@),
    { unimplemented!() }
    /// gadgets/arithmetic.rs:223 `terms.fold(one, |acc, t| mul(acc, t))`
    #[verifier::external_body]
    pub fn mul_many(&mut self, terms: &[Target]) -> (r: Target)
        ensures bframe(old(self), final(self)), bext(old(self), final(self)),
                final(self).sat() ==> val(r) == fprod_targets(terms@),
                honest() ==> final(self).sat() == old(self).sat(),
                honest() ==> val(r) == fprod_targets(terms@),
    { unimplemented!() }
    #[verifier::external_body]
    pub fn sub(&mut self, a: Target, b: Target) -> (r: Target)
        ensures bframe(old(self), final(self)), bext(old(self), final(self)),
                final(self).sat() ==> val(r) == fsub(val(a), val(b)),
                honest() ==> final(self).sat() == old(self).sat(),   // TB-5: a computing gadget's own constraints hold for the generators' witness
                honest() ==> val(r) == fsub(val(a), val(b)),
    { unimplemented!() }
    #[verifier::external_body]
    pub fn mul(&mut self, a: Target, b: Target) -> (r: Target)
        ensures bframe(old(self), final(self)), bext(old(self), final(self)),
                final(self).sat() ==> val(r) == fmul(val(a), val(b)),
                honest() ==> final(self).sat() == old(self).sat(),   // TB-5: a computing gadget's own constraints hold for the generators' witness
                honest() ==> val(r) == fmul(val(a), val(b)),
    { unimplemented!() }
    #[verifier::external_body]
    pub fn mul_const(&mut self, c: F, a: Target) -> (r: Target)
        ensures bframe(old(self), final(self)), bext(old(self), final(self)),
                final(self).sat() ==> val(r) == fmul(c.fv(), val(a)),
                honest() ==> final(self).sat() == old(self).sat(),
                honest() ==> val(r) == fmul(c.fv(), val(a)),
    { unimplemented!() }
    /// c*x + y   (arithmetic.rs mul_const_add)
    #[verifier::external_body]
    pub fn mul_const_add(&mut self, c: F, x: Target, y: Target) -> (r: Target)
        ensures bframe(old(self), final(self)), bext(old(self), final(self)),
                final(self).sat() ==> val(r) == fmuladd(c.fv(), val(x), val(y)),
                honest() ==> final(self).sat() == old(self).sat(),
                honest() ==> val(r) == fmuladd(c.fv(), val(x), val(y)),
    { unimplemented!() }

    // --- boolean polynomials: arithmetic.rs:345-360. NO boolean constraint on the inputs.
    #[verifier::external_body]
    pub fn not(&mut self, b: BoolTarget) -> (r: BoolTarget)
        ensures bframe(old(self), final(self)), bext(old(self), final(self)),
                final(self).sat() ==> val(r.target) == fsub(1, val(b.target)),
                honest() ==> final(self).sat() == old(self).sat(),   // TB-5: a computing gadget's own constraints hold for the generators' witness
                honest() ==> val(r.target) == fsub(1, val(b.target)),
    { unimplemented!() }
    #[verifier::external_body]
    pub fn and(&mut self, b1: BoolTarget, b2: BoolTarget) -> (r: BoolTarget)
        ensures bframe(old(self), final(self)), bext(old(self), final(self)),
                final(self).sat() ==> val(r.target) == fmul(val(b1.target), val(b2.target)),
                honest() ==> final(self).sat() == old(self).sat(),   // TB-5: a computing gadget's own constraints hold for the generators' witness
                honest() ==> val(r.target) == fmul(val(b1.target), val(b2.target)),
    { unimplemented!() }
    #[verifier::external_body]
    pub fn or(&mut self, b1: BoolTarget, b2: BoolTarget) -> (r: BoolTarget)
        ensures bframe(old(self), final(self)), bext(old(self), final(self)),
                final(self).sat() ==> val(r.target) == f_or(val(b1.target), val(b2.target)),
                honest() ==> final(self).sat() == old(self).sat(),   // TB-5: a computing gadget's own constraints hold for the generators' witness
                honest() ==> val(r.target) == f_or(val(b1.target), val(b2.target)),
    { unimplemented!() }
    // gadgets/select.rs:33
    #[verifier::external_body]
    pub fn select(&mut self, b: BoolTarget, x: Target, y: Target) -> (r: Target)
        ensures bframe(old(self), final(self)), bext(old(self), final(self)),
                final(self).sat() ==> val(r) == fsel(val(b.target), val(x), val(y)),
                honest() ==> final(self).sat() == old(self).sat(),   // TB-5: a computing gadget's own constraints hold for the generators' witness
                honest() ==> val(r) == fsel(val(b.target), val(x), val(y)),
    { unimplemented!() }

    // arithmetic.rs:370 — eq*(x-y)=0 and (x-y)*inv = 1-eq; P prime => eq is boolean and eq=1 <=> x=y
    #[verifier::external_body]
    pub fn is_equal(&mut self, x: Target, y: Target) -> (r: BoolTarget)
        ensures bframe(old(self), final(self)), bext(old(self), final(self)),
                final(self).sat() ==> is_bool(val(r.target)) && (val(r.target) == 1 <==> val(x) == val(y)),
                honest() ==> final(self).sat() == old(self).sat(),   // TB-5: a computing gadget's own constraints hold for the generators' witness
                honest() ==> is_bool(val(r.target)) && (val(r.target) == 1 <==> val(x) == val(y)),
    { unimplemented!() }

    // circuit_builder.rs connect(): copy constraint
    #[verifier::external_body]
    pub fn connect(&mut self, x: Target, y: Target)
        ensures bframe(old(self), final(self)), bext(old(self), final(self)),
                final(self).sat() ==> val(x) == val(y),
                honest() ==> (final(self).sat() == (old(self).sat() && val(x) == val(y))),   // TB-5: an asserting gadget adds exactly its condition
    { unimplemented!() }
    #[verifier::external_body]
    pub fn connect_hashes(&mut self, x: HashOutTarget, y: HashOutTarget)
        ensures bframe(old(self), final(self)), bext(old(self), final(self)),
                final(self).sat() ==> hvals(x) == hvals(y),
                honest() ==> (final(self).sat() == (old(self).sat() && hvals(x) == hvals(y))),
    { unimplemented!() }

    // gadgets/split_join.rs:25 — BaseSumGate<2> limbs are boolean; Σ b_i 2^i is CONNECTED to x, i.e.
    // equal in the field (mod P). For num_bits = 0 nothing is emitted.
    #[verifier::external_body]
    pub fn split_le(&mut self, x: Target, num_bits: usize) -> (r: Vec<BoolTarget>)
        ensures bframe(old(self), final(self)), bext(old(self), final(self)),
                r@.len() == num_bits,
                final(self).sat() && num_bits > 0 ==> all_bool(bvals(r@)) && bits_sum_from(bvals(r@), 0) % P() == val(x),
                // TB-5 (BaseSplitGenerator: limb i = (value >> i) & 1): boolean limbs always; the sum constraint holds iff the value fits
                honest() && 0 < num_bits <= 64 ==> all_bool(bvals(r@)) && (final(self).sat() == (old(self).sat() && val(x) < pow2i(num_bits as nat)))
                    && (val(x) < pow2i(num_bits as nat) ==> bits_sum_from(bvals(r@), 0) == val(x)),
                honest() && num_bits == 0 ==> final(self).sat() == old(self).sat(),
    { unimplemented!() }
    // gadgets/range_check.rs:21 — range_check IS split_le (no-op for n_log = 0)
    #[verifier::external_body]
    pub fn range_check(&mut self, x: Target, n_log: usize)
        ensures bframe(old(self), final(self)), bext(old(self), final(self)),
                final(self).sat() && n_log > 0 ==> rc_ok(val(x), n_log as nat),
                honest() && 0 < n_log <= 64 ==> (final(self).sat() == (old(self).sat() && val(x) < pow2i(n_log as nat))),
                honest() && n_log == 0 ==> final(self).sat() == old(self).sat(),
    { unimplemented!() }
    // gadgets/range_check.rs:34 — two range checks and x == high*2^n_log + low IN THE FIELD
    #[verifier::external_body]
    pub fn split_low_high(&mut self, x: Target, n_log: usize, num_bits: usize) -> (r: (Target, Target))
        requires n_log <= num_bits, n_log < 64, num_bits <= 64,
        ensures bframe(old(self), final(self)), bext(old(self), final(self)),
                final(self).sat() ==> val(x) == fmuladd(val(r.1), pow2i(n_log as nat), val(r.0)),
                final(self).sat() && n_log > 0 ==> rc_ok(val(r.0), n_log as nat),
                final(self).sat() && num_bits > n_log ==> rc_ok(val(r.1), (num_bits - n_log) as nat),
                // TB-5 (LowHighGenerator: low = x & (2^n_log - 1), high = x >> n_log): exact integer decomposition; only the high range check can fail
                honest() ==> val(r.0) == val(x) % pow2i(n_log as nat) && val(r.1) == val(x) / pow2i(n_log as nat),
                honest() ==> (final(self).sat() == (old(self).sat() && (num_bits > n_log ==> val(r.1) < pow2i((num_bits - n_log) as nat)))),
    { unimplemented!() }

    // hashing/poseidon2: sponge over the whole input sequence, no padding (TB-4)
    #[verifier::external_body]
    pub fn hash_n_to_hash_no_pad_p2<HH: AlgebraicHasher<F>>(&mut self, inputs: Vec<Target>) -> (r: HashOutTarget)
        ensures bframe(old(self), final(self)), bext(old(self), final(self)),
                final(self).sat() ==> hvals(r) == H(vals(inputs@)),
                honest() ==> final(self).sat() == old(self).sat(),
                honest() ==> hvals(r) == H(vals(inputs@)),
    { unimplemented!() }

    // --- virtual targets: fresh, unconstrained wires (nothing is learnt about val)
    #[verifier::external_body]
    pub fn add_virtual_target(&mut self) -> (r: Target)
        ensures bframe(old(self), final(self)), final(self).sat() == old(self).sat(),
    { unimplemented!() }
    #[verifier::external_body]
    pub fn add_virtual_targets(&mut self, n: usize) -> (r: Vec<Target>)
        ensures bframe(old(self), final(self)), final(self).sat() == old(self).sat(), r@.len() == n,
    { unimplemented!() }
    #[verifier::external_body]
    pub fn add_virtual_hash(&mut self) -> (r: HashOutTarget)
        ensures bframe(old(self), final(self)), final(self).sat() == old(self).sat(),
    { unimplemented!() }
    // add_virtual_bool_target_safe: boolean-constrained (x*(x-1)=0)
    #[verifier::external_body]
    pub fn add_virtual_bool_target_safe(&mut self) -> (r: BoolTarget)
        ensures bframe(old(self), final(self)), bext(old(self), final(self)),
                final(self).sat() ==> is_bool(val(r.target)),
    { unimplemented!() }
    #[verifier::external_body]
    pub fn add_virtual_public_input(&mut self) -> (r: Target)
        ensures final(self).pis() == old(self).pis().push(r), final(self).sat() == old(self).sat(), final(self).verified() == old(self).verified(),
    { unimplemented!() }
    #[verifier::external_body]
    pub fn add_virtual_hash_public_input(&mut self) -> (r: HashOutTarget)
        ensures final(self).pis() == old(self).pis() + r.elements@, final(self).sat() == old(self).sat(), final(self).verified() == old(self).verified(),
    { unimplemented!() }
    #[verifier::external_body]
    pub fn register_public_input(&mut self, t: Target)
        ensures final(self).pis() == old(self).pis().push(t), final(self).sat() == old(self).sat(), final(self).verified() == old(self).verified(),
    { unimplemented!() }
    #[verifier::external_body]
    pub fn register_public_inputs(&mut self, ts: &[Target])
        ensures final(self).pis() == old(self).pis() + ts@, final(self).sat() == old(self).sat(), final(self).verified() == old(self).verified(),
    { unimplemented!() }
}

// --- derived range facts (PROVED from the split_le contract)
pub proof fn lemma_bits_sum_bound(bits: Seq<int>, from: int)
    requires all_bool(bits), 0 <= from <= bits.len(),
    ensures 0 <= bits_sum_from(bits, from) < pow2i((bits.len() - from) as nat),
    decreases bits.len() - from,
{
    vstd::arithmetic::power2::lemma2_to64();
    if from < bits.len() {
        lemma_bits_sum_bound(bits, from + 1);
        assert(is_bool(bits[from]));
        vstd::arithmetic::power2::lemma_pow2_unfold((bits.len() - from) as nat);
    }
}

/// a range check of 1..=63 bits bounds the integer value
pub proof fn lemma_range_check_bound(bits: Seq<int>, v: int)
    requires all_bool(bits), 1 <= bits.len() <= 63, bits_sum_from(bits, 0) % P() == v,
    ensures 0 <= v < pow2i(bits.len() as nat), v == bits_sum_from(bits, 0),
{
    lemma_bits_sum_bound(bits, 0);
    lemma_pow2_lt_P(bits.len() as nat);
    vstd::arithmetic::div_mod::lemma_small_mod(bits_sum_from(bits, 0) as nat, P() as nat);
}

/// a value that passed an n-bit range check (1 <= n <= 63) is below 2^n — PROVED from the split_le contract
pub broadcast proof fn lemma_rc_ok(v: int, n: nat)
    requires #[trigger] rc_ok(v, n), 1 <= n <= 63,
    ensures 0 <= v < pow2i(n),
{
    let bits = choose|bits: Seq<int>| #[trigger] all_bool(bits) && bits.len() == n && bits_sum_from(bits, 0) % P() == v;
    lemma_range_check_bound(bits, v);
}

// --- value views distribute over push / concatenation (PROVED)
pub broadcast proof fn lemma_vals_push(s: Seq<Target>, t: Target)
    ensures #[trigger] vals(s.push(t)) == vals(s).push(val(t)),
{ assert(vals(s.push(t)) =~= vals(s).push(val(t))); }
pub broadcast proof fn lemma_vals_add(s: Seq<Target>, t: Seq<Target>)
    ensures #[trigger] vals(s + t) == vals(s) + vals(t),
{ assert(vals(s + t) =~= vals(s) + vals(t)); }

// --- exec helpers the normaliser maps panicking macros onto (N9)
pub fn vassert(c: bool)
    requires c,
{ }
#[verifier::external_body]
pub fn vpanic() -> !
    requires false,
{ unimplemented!() }

// module-path aliases so fully qualified plonky2 paths in the repository resolve to the prelude stubs
pub mod plonky2 {
    pub mod hash { pub mod hash_types { pub use crate::HashOutTarget; pub use crate::RichField; } pub mod poseidon2 { pub use crate::Poseidon2Hash; } }
    pub mod iop { pub mod target { pub use crate::Target; pub use crate::BoolTarget; } }
    pub mod plonk { pub mod circuit_builder { pub use crate::CircuitBuilder; } }
}
