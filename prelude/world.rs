// ---- prelude/world.rs : TB-8 file-system world for effect threading (N14). Paths are abstract ids; a directory's content is
// an abstract id, so "complete set" = Dir(c) and a partially deleted directory = Damaged(c).
pub struct Path { pub id: u64 }
pub type PathBuf = Path;
pub struct OsName { pub id: u64 }
pub struct OsString { pub id: u64 }
pub struct IoError { }
impl core::fmt::Debug for IoError { #[verifier::external_body] fn fmt(&self, f: &mut core::fmt::Formatter<'_>) -> core::fmt::Result { unimplemented!() } }
/// result of `Path::file_name()`; `d` is what `.unwrap_or_default()` yields
pub struct OptName { pub d: u64 }
pub uninterp spec fn spec_with_name(p: u64, name: u64) -> u64;
pub uninterp spec fn spec_name_or_default(p: u64) -> u64;
pub uninterp spec fn spec_push(name: u64) -> u64;
/// the `<file name>.old` sibling of p
pub open spec fn old_sibling(p: u64) -> u64 { spec_with_name(p, spec_push(spec_name_or_default(p))) }
impl Path {
    #[verifier::external_body]
    pub fn file_name(&self) -> (r: OptName) ensures r.d == spec_name_or_default(self.id), { unimplemented!() }
    #[verifier::external_body]
    pub fn with_file_name(&self, name: OsString) -> (r: Path)
        ensures r.id == spec_with_name(self.id, name.id),
    { unimplemented!() }
}
impl OptName {
    #[verifier::external_body]
    pub fn unwrap_or_default(self) -> (r: OsName) ensures r.id == self.d, { unimplemented!() }
}
impl OsName {
    #[verifier::external_body]
    pub fn to_os_string(&self) -> (r: OsString) ensures r.id == self.id, { unimplemented!() }
}
impl OsString {
    #[verifier::external_body]
    pub fn push(&mut self, s: &str) ensures final(self).id == spec_push(old(self).id), { unimplemented!() }
}

pub enum Node { Absent, File(int), Dir(int), Damaged(int) }

#[verifier::external_body]
pub struct World { _p: u8 }
impl World {
    /// current file-system state (path id -> node)
    pub uninterp spec fn fs(&self) -> Map<u64, Node>;
    /// ghost configuration of the publication being verified: output / staging / moved-aside paths and the node that was
    /// at the output path on entry (the "previous set")
    pub uninterp spec fn out(&self) -> u64;
    pub uninterp spec fn stg(&self) -> u64;
    pub uninterp spec fn oldp(&self) -> u64;
    pub uninterp spec fn orig(&self) -> Node;
    pub open spec fn same_cfg(&self, o: &World) -> bool { self.out() == o.out() && self.stg() == o.stg() && self.oldp() == o.oldp() && self.orig() == o.orig() }
    /// C23: what must hold in EVERY intermediate state (a crash can stop the process after any step)
    pub open spec fn safe(&self, fs: Map<u64, Node>) -> bool {
        let o = fs[self.out()];
        // never a mix at the output path: the complete previous set, the complete new set, or nothing
        &&& (o == self.orig() || o == Node::Dir(1) || o is Absent)
        // if the previous set is no longer at the output path, the new set is there or both copies survive elsewhere on disk
        &&& (o != self.orig() ==> o == Node::Dir(1) || (fs[self.oldp()] == self.orig() && fs[self.stg()] == Node::Dir(1)))
    }

    #[verifier::external_body]
    pub fn is_dir(&mut self, p: &Path) -> (r: bool)
        ensures final(self).fs() == old(self).fs(), final(self).same_cfg(old(self)),
                r == (old(self).fs()[p.id] is Dir || old(self).fs()[p.id] is Damaged),
    { unimplemented!() }
    #[verifier::external_body]
    pub fn exists(&mut self, p: &Path) -> (r: bool)
        ensures final(self).fs() == old(self).fs(), final(self).same_cfg(old(self)),
                r == !(old(self).fs()[p.id] is Absent),
    { unimplemented!() }
    /// rename(2): atomic. A crash may happen just before it, so the state must be crash-safe here. Failure changes nothing.
    #[verifier::external_body]
    pub fn rename(&mut self, src: &Path, dst: &Path) -> (r: Result<(), IoError>)
        requires old(self).safe(old(self).fs()),
        ensures final(self).same_cfg(old(self)),
                r.is_err() ==> final(self).fs() == old(self).fs(),
                r.is_ok() ==> !(old(self).fs()[src.id] is Absent)
                    && final(self).fs() == old(self).fs().insert(dst.id, old(self).fs()[src.id]).insert(src.id, Node::Absent),
    { unimplemented!() }
    /// remove_dir_all: NOT atomic — a crash or an error can leave the directory partially deleted. The state must be
    /// crash-safe before the call AND with the directory damaged.
    #[verifier::external_body]
    pub fn remove_dir_all(&mut self, p: &Path) -> (r: Result<(), IoError>)
        requires old(self).safe(old(self).fs()),
                 old(self).fs()[p.id] is Dir ==> old(self).safe(old(self).fs().insert(p.id, Node::Damaged(old(self).fs()[p.id]->Dir_0))),
                 old(self).safe(old(self).fs().insert(p.id, Node::Absent)),
        ensures final(self).same_cfg(old(self)),
                r.is_ok() ==> final(self).fs() == old(self).fs().insert(p.id, Node::Absent),
                r.is_err() ==> final(self).fs() == old(self).fs()
                    || final(self).fs() == old(self).fs().insert(p.id, Node::Absent)
                    || (old(self).fs()[p.id] is Dir && final(self).fs() == old(self).fs().insert(p.id, Node::Damaged(old(self).fs()[p.id]->Dir_0))),
    { unimplemented!() }
}
