// ---- prelude/world.rs : TB-8 file-system world for effect threading (N14). Paths are abstract ids; a directory's content is
// an abstract id, so "complete set" = Dir(c) and a partially deleted directory = Damaged(c).
pub struct Path { pub id: u64 }
pub type PathBuf = Path;
pub struct OsName { pub id: u64 }
pub struct OsString { pub id: u64 }
pub struct IoError { }
impl core::fmt::Debug for IoError { #[verifier::external_body] fn fmt(&self, f: &mut core::fmt::Formatter<'_>) -> core::fmt::Result { unimplemented!() } }
/// result of `Path::file_name()`; `d` is what `.unwrap_or_default()` yields
pub struct OptName { pub d: u64 }
pub uninterp spec fn spec_with_name(p: u64, name: u64) -> u64;
pub uninterp spec fn spec_name_or_default(p: u64) -> u64;
pub uninterp spec fn spec_push(name: u64) -> u64;
/// the `<file name>.old` sibling of p
pub open spec fn old_sibling(p: u64) -> u64 { spec_with_name(p, spec_push(spec_name_or_default(p))) }
impl Path {
    #[verifier::external_body]
    pub fn file_name(&self) -> (r: OptName) ensures r.d == spec_name_or_default(self.id), { unimplemented!() }
    #[verifier::external_body]
    pub fn with_file_name(&self, name: OsString) -> (r: Path)
        ensures r.id == spec_with_name(self.id, name.id),
    { unimplemented!() }
}
impl OptName {
    #[verifier::external_body]
    pub fn unwrap_or_default(self) -> (r: OsName) ensures r.id == self.d, { unimplemented!() }
}
impl OsName {
    #[verifier::external_body]
    pub fn to_os_string(&self) -> (r: OsString) ensures r.id == self.id, { unimplemented!() }
}
impl OsString {
    #[verifier::external_body]
    pub fn push(&mut self, s: &str) ensures final(self).id == spec_push(old(self).id), { unimplemented!() }
}

pub enum Node { Absent, File(int), Dir(int), Damaged(int) }

#[verifier::external_body]
pub struct World { _p: u8 }
impl World {
    /// current file-system state (path id -> node)
    pub uninterp spec fn fs(&self) -> Map<u64, Node>;
    /// ghost configuration of the publication being verified: output / staging / moved-aside paths and the node that was
    /// at the output path on entry (the "previous set")
    pub uninterp spec fn out(&self) -> u64;
    pub uninterp spec fn stg(&self) -> u64;
    pub uninterp spec fn oldp(&self) -> u64;
    pub uninterp spec fn orig(&self) -> Node;
    /// paths whose recursive removal was attempted and reported an error (so "no staging directory left behind" can be stated
    /// as: removed, or the removal itself failed)
    pub uninterp spec fn rm_err(&self) -> Set<u64>;
    /// some generator stage of this run has reported an error
    pub uninterp spec fn gen_failed(&self) -> bool;
    pub open spec fn same_cfg(&self, o: &World) -> bool { self.out() == o.out() && self.stg() == o.stg() && self.oldp() == o.oldp() && self.orig() == o.orig() }
    /// C23: what must hold in EVERY intermediate state (a crash can stop the process after any step)
    pub open spec fn safe(&self, fs: Map<u64, Node>) -> bool {
        let o = fs[self.out()];
        // never a mix at the output path: the complete previous set, the complete new set, or nothing
        &&& (o == self.orig() || o == Node::Dir(1) || o is Absent)
        // if the previous set is no longer at the output path, the new set is there or both copies survive elsewhere on disk
        &&& (o != self.orig() ==> o == Node::Dir(1) || (fs[self.oldp()] == self.orig() && fs[self.stg()] == Node::Dir(1)))
    }

    #[verifier::external_body]
    pub fn is_dir(&mut self, p: &Path) -> (r: bool)
        ensures final(self).fs() == old(self).fs(), final(self).same_cfg(old(self)), final(self).rm_err() == old(self).rm_err() && final(self).gen_failed() == old(self).gen_failed(),
                r == (old(self).fs()[p.id] is Dir || old(self).fs()[p.id] is Damaged),
    { unimplemented!() }
    #[verifier::external_body]
    pub fn exists(&mut self, p: &Path) -> (r: bool)
        ensures final(self).fs() == old(self).fs(), final(self).same_cfg(old(self)), final(self).rm_err() == old(self).rm_err() && final(self).gen_failed() == old(self).gen_failed(),
                r == !(old(self).fs()[p.id] is Absent),
    { unimplemented!() }
    /// rename(2): atomic. A crash may happen just before it, so the state must be crash-safe here. Failure changes nothing.
    #[verifier::external_body]
    pub fn rename(&mut self, src: &Path, dst: &Path) -> (r: Result<(), IoError>)
        requires old(self).safe(old(self).fs()),
        ensures final(self).same_cfg(old(self)), final(self).rm_err() == old(self).rm_err() && final(self).gen_failed() == old(self).gen_failed(),
                r.is_err() ==> final(self).fs() == old(self).fs(),
                r.is_ok() ==> !(old(self).fs()[src.id] is Absent)
                    && final(self).fs() == old(self).fs().insert(dst.id, old(self).fs()[src.id]).insert(src.id, Node::Absent),
    { unimplemented!() }
    /// remove_dir_all: NOT atomic — a crash or an error can leave the directory partially deleted. The state must be
    /// crash-safe before the call AND with the directory damaged.
    #[verifier::external_body]
    pub fn remove_dir_all(&mut self, p: &Path) -> (r: Result<(), IoError>)
        requires old(self).safe(old(self).fs()),
                 old(self).fs()[p.id] is Dir ==> old(self).safe(old(self).fs().insert(p.id, Node::Damaged(old(self).fs()[p.id]->Dir_0))),
                 old(self).safe(old(self).fs().insert(p.id, Node::Absent)),
        ensures final(self).same_cfg(old(self)),
                final(self).rm_err() == (if r.is_err() { old(self).rm_err().insert(p.id) } else { old(self).rm_err() }), final(self).gen_failed() == old(self).gen_failed(),
                r.is_ok() ==> final(self).fs() == old(self).fs().insert(p.id, Node::Absent),
                r.is_err() ==> final(self).fs() == old(self).fs()
                    || final(self).fs() == old(self).fs().insert(p.id, Node::Absent)
                    || (old(self).fs()[p.id] is Dir && final(self).fs() == old(self).fs().insert(p.id, Node::Damaged(old(self).fs()[p.id]->Dir_0))),
    { unimplemented!() }
    /// ghost: the directory at path p has entries. Unknown to every contract (a staging directory after a failed generation may or may not be
    /// empty), so code that relies on emptiness has to establish it.
    pub uninterp spec fn nonempty(&self, p: u64) -> bool;
    /// std::fs::remove_dir: removes an EMPTY directory. On a directory with entries it fails (ENOTEMPTY) and changes nothing — that is the
    /// documented behaviour, not an I/O failure, so it is NOT recorded in rm_err and excuses nothing.
    #[verifier::external_body]
    pub fn remove_dir(&mut self, p: &Path) -> (r: Result<(), IoError>)
        requires old(self).safe(old(self).fs()), old(self).safe(old(self).fs().insert(p.id, Node::Absent)),
        ensures final(self).same_cfg(old(self)), final(self).gen_failed() == old(self).gen_failed(),
                old(self).nonempty(p.id) ==> r.is_err() && final(self).fs() == old(self).fs() && final(self).rm_err() == old(self).rm_err(),
                !old(self).nonempty(p.id) ==> final(self).rm_err() == (if r.is_err() { old(self).rm_err().insert(p.id) } else { old(self).rm_err() })
                    && (r.is_ok() ==> final(self).fs() == old(self).fs().insert(p.id, Node::Absent)) && (r.is_err() ==> final(self).fs() == old(self).fs()),
    { unimplemented!() }
    /// TB-8c create_staging_dir (circuit-builder lib.rs:163; not under contract): on success a FRESH, empty sibling directory
    /// `.<name>.staging-<pid>-<rand>` now exists (create_dir fails on an existing path). The ghost configuration names it: it
    /// is this publication's staging path, and its `.old` sibling is the moved-aside path. The three names are distinct by
    /// construction of the name. An empty staging directory is a partially present new set.
    #[verifier::external_body]
    pub fn create_staging_dir(&mut self, output_dir: &Path) -> (r: Result<PathBuf>)
        requires old(self).safe(old(self).fs()),
        ensures final(self).same_cfg(old(self)), final(self).rm_err() == old(self).rm_err() && final(self).gen_failed() == old(self).gen_failed(),
                r.is_err() ==> final(self).fs() == old(self).fs(),
                r.is_ok() ==> r->Ok_0.id == old(self).stg() && old(self).oldp() == old_sibling(r->Ok_0.id)
                    && r->Ok_0.id != output_dir.id && old_sibling(r->Ok_0.id) != output_dir.id && old_sibling(r->Ok_0.id) != r->Ok_0.id
                    && old(self).fs()[r->Ok_0.id] is Absent && !old(self).rm_err().contains(r->Ok_0.id)
                    && final(self).fs() == old(self).fs().insert(r->Ok_0.id, Node::Damaged(1)),
    { unimplemented!() }
    /// TB-8d generator stages (generate_*_circuit_binaries; not under contract): they write files into `dir` only. While they
    /// run, and if they fail, `dir` holds a partial new set; a crash can happen at any point, so the partial state must be safe.
    #[verifier::external_body]
    pub fn gen_leaf(&mut self, dir: &Path) -> (r: Result<()>)
        requires old(self).safe(old(self).fs()), old(self).safe(old(self).fs().insert(dir.id, Node::Damaged(1))),
        ensures final(self).same_cfg(old(self)), final(self).rm_err() == old(self).rm_err(), final(self).gen_failed() == (old(self).gen_failed() || r.is_err()),
                final(self).fs() == old(self).fs().insert(dir.id, Node::Damaged(1)),
    { unimplemented!() }
    #[verifier::external_body]
    pub fn gen_private(&mut self, dir: &Path, num_leaf_proofs: usize, include_prover: bool) -> (r: Result<()>)
        requires old(self).safe(old(self).fs()), old(self).safe(old(self).fs().insert(dir.id, Node::Damaged(1))),
        ensures final(self).same_cfg(old(self)), final(self).rm_err() == old(self).rm_err(), final(self).gen_failed() == (old(self).gen_failed() || r.is_err()),
                final(self).fs() == old(self).fs().insert(dir.id, Node::Damaged(1)),
    { unimplemented!() }
    #[verifier::external_body]
    pub fn gen_public(&mut self, dir: &Path, num_private_batch_proofs: usize, num_leaf_proofs: usize) -> (r: Result<()>)
        requires old(self).safe(old(self).fs()), old(self).safe(old(self).fs().insert(dir.id, Node::Damaged(1))),
        ensures final(self).same_cfg(old(self)), final(self).rm_err() == old(self).rm_err(), final(self).gen_failed() == (old(self).gen_failed() || r.is_err()),
                final(self).fs() == old(self).fs().insert(dir.id, Node::Damaged(1)),
    { unimplemented!() }
    /// `config.save(dir)`, written last: "its presence marks the staged set as complete" — success completes the set in `dir`
    #[verifier::external_body]
    pub fn save_config(&mut self, cfg: &CircuitBinsConfig, dir: &Path) -> (r: Result<()>)
        requires old(self).safe(old(self).fs()), old(self).safe(old(self).fs().insert(dir.id, Node::Damaged(1))),
                 old(self).safe(old(self).fs().insert(dir.id, Node::Dir(1))),
        ensures final(self).same_cfg(old(self)), final(self).rm_err() == old(self).rm_err(), final(self).gen_failed() == (old(self).gen_failed() || r.is_err()),
                final(self).fs() == old(self).fs().insert(dir.id, if r.is_ok() { Node::Dir(1) } else { Node::Damaged(1) }),
    { unimplemented!() }
}
/// aggregator config.rs CircuitBinsConfig: validated counts (validation is C28/C29's subject, not the publication's)
pub struct CircuitBinsConfig { pub num_leaf_proofs: usize, pub num_private_batch_proofs: Option<usize> }
impl CircuitBinsConfig {
    #[verifier::external_body]
    pub fn new(num_leaf_proofs: usize, num_private_batch_proofs: Option<usize>) -> (r: Result<Self>) { unimplemented!() }
}
