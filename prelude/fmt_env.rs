// ---- prelude/fmt_env.rs : core::fmt as seen by the manual, redacting Debug impls (TB-13). A Formatter carries a ghost LOG of what was
// handed to it: one abstract rendering token per `.field(name, &value)`. `rv::<T>(v)` is the (uninterpreted) rendering of value v at
// type T — no injectivity, no structure: the only provable facts are "this entry IS the rendering of that value". Rule N13 turns
// `f.debug_struct(n).field(..)*.finish()` into the sequential calls below. Nothing here models the produced TEXT (C32 not covered part).
pub uninterp spec fn rv<T>(v: T) -> int;
pub struct Formatter { pub log: Ghost<Seq<int>> }
pub struct FmtError { }
pub mod vfmt { pub type Formatter<'a> = crate::Formatter; pub type Result = core::result::Result<(), crate::FmtError>; }
impl Formatter {
    #[verifier::external_body]
    pub fn vds_begin(&mut self, name: &str) ensures final(self).log@ == old(self).log@ { unimplemented!() }
    /// DebugStruct::field(name, &value): writes `name: {value:?}` — logged as the rendering of the value handed in
    #[verifier::external_body]
    pub fn vds_field<T>(&mut self, name: &str, v: &T) ensures final(self).log@ == old(self).log@.push(rv::<T>(*v)) { unimplemented!() }
    #[verifier::external_body]
    pub fn vds_finish(&mut self) -> (r: core::result::Result<(), FmtError>) ensures final(self).log@ == old(self).log@ { unimplemented!() }
}
/// a string literal handed to `.field` (the "[REDACTED]" placeholders): the rendering of SOME &'static str — strings carry no struct data
pub open spec fn is_str(e: int) -> bool { exists|s: &'static str| e == #[trigger] rv::<&'static str>(s) }
