// ---- prelude/stdspecs.rs : TRUSTED specifications of std functions vstd does not cover (TB-6), written from the std docs.
// `to_vec` clones element-wise; for the Copy types it is used on here (Target, u8, u64) a clone is the value itself.
pub assume_specification<T: Clone> [<[T]>::to_vec] (s: &[T]) -> (r: Vec<T>)
    ensures r@ == s@;
