// ---- prelude/stdspecs.rs : TRUSTED specifications of std functions vstd does not cover (TB-6), written from the std docs.
// `to_vec` clones element-wise; for the Copy types it is used on here (Target, u8, u64) a clone is the value itself.
pub assume_specification<T: Clone> [<[T]>::to_vec] (s: &[T]) -> (r: Vec<T>)
    ensures r@ == s@;

// `usize::leading_zeros` (core docs): number of leading zero bits
pub uninterp spec fn spec_lz(x: usize) -> u32;
#[verifier::external_body]
pub broadcast proof fn axiom_spec_lz(x: usize)
    ensures (#[trigger] spec_lz(x)) <= 64, x == 0 ==> spec_lz(x) == 64,
            x > 0 ==> pow2i((63 - spec_lz(x)) as nat) <= x as int && (x as int) < pow2i((64 - spec_lz(x)) as nat),
{ }
pub assume_specification [usize::leading_zeros] (x: usize) -> (r: u32)
    ensures r == spec_lz(x);
// `usize::ilog2` (core docs): floor of the base-2 logarithm; panics on 0
pub uninterp spec fn spec_ilog2(x: usize) -> u32;
#[verifier::external_body]
pub broadcast proof fn axiom_spec_ilog2(x: usize)
    ensures x > 0 ==> (#[trigger] spec_ilog2(x)) <= 63 && pow2i(spec_ilog2(x) as nat) <= x as int && (x as int) < pow2i((spec_ilog2(x) + 1) as nat),
{ }
pub assume_specification [usize::ilog2] (x: usize) -> (r: u32)
    requires x > 0,
    ensures r == spec_ilog2(x);

/// N19: `.try_into()` is type-directed; each impl below states the std behaviour of one conversion (TB-6)
pub struct VConvError { }
impl core::fmt::Debug for VConvError { #[verifier::external_body] fn fmt(&self, f: &mut core::fmt::Formatter<'_>) -> core::fmt::Result { unimplemented!() } }
pub trait VTryInto<T>: Sized {
    spec fn conv(self) -> Option<T>;
    fn vtry_into(self) -> (r: Result<T, VConvError>)
        ensures r.is_ok() == self.conv().is_some(), r.is_ok() ==> r->Ok_0 == self.conv().unwrap();
}
// Vec<T> -> [T; N]: Ok iff len == N, same elements (alloc::vec TryFrom<Vec<T>> for [T; N])
impl<T: Copy, const N: usize> VTryInto<[T; N]> for Vec<T> {
    open spec fn conv(self) -> Option<[T; N]> {
        if self@.len() == N { Some(choose|a: [T; N]| a@ == self@) } else { None }
    }
    #[verifier::external_body]
    fn vtry_into(self) -> (r: Result<[T; N], VConvError>) { unimplemented!() }
}
// u64 -> u32: Ok iff value <= u32::MAX
impl VTryInto<u32> for u64 {
    open spec fn conv(self) -> Option<u32> { if self <= 0xFFFF_FFFF { Some(self as u32) } else { None } }
    #[verifier::external_body]
    fn vtry_into(self) -> (r: Result<u32, VConvError>) { unimplemented!() }
}
// usize -> u32
impl VTryInto<u32> for usize {
    open spec fn conv(self) -> Option<u32> { if self <= 0xFFFF_FFFF { Some(self as u32) } else { None } }
    #[verifier::external_body]
    fn vtry_into(self) -> (r: Result<u32, VConvError>) { unimplemented!() }
}
/// an array with a given view exists (arrays of length N are in bijection with sequences of length N)
#[verifier::external_body]
pub proof fn axiom_array_of_seq<T, const N: usize>(s: Seq<T>)
    requires s.len() == N,
    ensures exists|a: [T; N]| a@ == s,
{ }
