// ---- prelude/leafdeps.rs : dependency stubs used by the leaf circuit (TB-2 / TB-7)
pub const FELTS_PER_U64: usize = 2; // qp-poseidon-core 3.1.0 src/serialization.rs:27
pub const POSEIDON2_OUTPUT: usize = 4; // qp-poseidon-core 3.1.0 src/poseidon2.rs:22 (re-exported by common/src/serialization.rs)

impl CircuitBuilder<F, D> {
    // circuit_builder.rs CircuitBuilder::new: empty constraint set, no public inputs.
    // C28 "before any build": the config handed to the builder must already satisfy the structural policy.
    #[verifier::external_body]
    pub fn new(config: CircuitConfig) -> (r: Self)
        requires cfg_policy(&config),
        ensures r.sat(), r.pis() == Seq::<Target>::empty(),
    { unimplemented!() }
}

pub open spec fn fvs(s: Seq<F>) -> Seq<int> { Seq::new(s.len(), |i: int| s[i].fv()) }

/// TB-7: the 4-bytes-per-felt encoding of a (short) salt string is a fixed sequence of canonical felts
pub uninterp spec fn salt_seq(s: &str) -> Seq<int>;
#[verifier::external_body]
pub fn string_to_felts(input: &str) -> (r: Result<Vec<F>, String>)
    ensures r.is_ok(), fvs(r.unwrap()@) == salt_seq(input),
            forall|i: int| 0 <= i < r.unwrap()@.len() ==> in_field(#[trigger] r.unwrap()@[i].fv()),
{ unimplemented!() }
