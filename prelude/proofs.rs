// ---- prelude/proofs.rs : native proof objects (plonk/proof.rs) and std maps (TB-6/TB-7)
/// ProofWithPublicInputs: only `public_inputs` is inspected by the repository's preflights; the proof body is opaque
#[verifier::reject_recursive_types(F)]
#[verifier::reject_recursive_types(C)]
pub struct ProofWithPublicInputs<F, C, const D: usize> { pub public_inputs: Vec<F>, pub body: Ghost<int>, pub _c: core::marker::PhantomData<C> }
/// canonical values of a proof's public inputs
pub open spec fn pvals<C, const DD: usize>(p: &ProofWithPublicInputs<GoldilocksField, C, DD>) -> Seq<int> {
    Seq::new(p.public_inputs@.len(), |i: int| p.public_inputs@[i].fv())
}
// TB-6: the derived/std `Hash`+`Eq` of [u64; 4] keys obey vstd's key model (deterministic hashing, Eq = structural equality)
#[verifier::external_body]
pub proof fn axiom_u64x4_key_model()
    ensures vstd::std_specs::hash::obeys_key_model::<[u64; 4]>(),
{ }
/// TB-6: `==` on u64 arrays is element-wise equality
#[verifier::external_body]
pub broadcast proof fn axiom_u64_array_eq_spec<const N: usize>(a: [u64; N], b: [u64; N])
    ensures #[trigger] vstd::std_specs::cmp::PartialEqSpec::eq_spec(&a, &b) == (a@ == b@),
{ }
