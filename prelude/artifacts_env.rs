// ---- prelude/artifacts_env.rs : serialisation, hashing and file reads around the artifact loaders (TB-9). Serialised forms and
// the hash are uninterpreted functions; what is specified is only WHICH bytes are compared / hashed / read, and the size
// preconditions that make "rejected before being read or hashed" an obligation of every caller.
pub struct DefaultGateSerializer;
pub uninterp spec fn common_bytes_of(c: &CommonCircuitData<F, D>) -> Seq<u8>;
pub uninterp spec fn vo_bytes_of(vk: int) -> Seq<u8>;
/// plonky2's derived PartialEq on CircuitConfig (all fields, including those the model does not carry)
pub uninterp spec fn cfg_same(a: &CircuitConfig, b: &CircuitConfig) -> bool;
impl PartialEq for CircuitConfig {
    #[verifier::external_body]
    fn eq(&self, other: &Self) -> (r: bool) { unimplemented!() }
}
impl vstd::std_specs::cmp::PartialEqSpecImpl for CircuitConfig {
    open spec fn obeys_eq_spec() -> bool { true }
    open spec fn eq_spec(&self, other: &Self) -> bool { cfg_same(self, other) }
}
impl CommonCircuitData<F, D> {
    #[verifier::external_body]
    pub fn to_bytes(&self, gs: &DefaultGateSerializer) -> (r: Result<Vec<u8>>)
        ensures r.is_ok() ==> r->Ok_0@ == common_bytes_of(self),
    { unimplemented!() }
    #[verifier::external_body]
    pub fn from_bytes(bytes: Vec<u8>, gs: &DefaultGateSerializer) -> (r: Result<Self>) { unimplemented!() }
}
impl VerifierOnlyCircuitData<C, D> {
    #[verifier::external_body]
    pub fn to_bytes(&self) -> (r: Result<Vec<u8>>)
        ensures r.is_ok() ==> r->Ok_0@ == vo_bytes_of(vk_of(self)),
    { unimplemented!() }
    #[verifier::external_body]
    pub fn from_bytes(bytes: Vec<u8>) -> (r: Result<Self>) { unimplemented!() }
}
/// TB-6: `==` on byte slices / byte vectors is element-wise equality
#[verifier::external_body]
pub broadcast proof fn axiom_u8_slice_eq_spec(a: &[u8], b: &[u8])
    ensures #[trigger] vstd::std_specs::cmp::PartialEqSpec::eq_spec(a, b) == (a@ == b@),
{ }
#[verifier::external_body]
pub broadcast proof fn axiom_u8_vec_eq_spec(a: &Vec<u8>, b: &Vec<u8>)
    ensures #[trigger] vstd::std_specs::cmp::PartialEqSpec::eq_spec(a, b) == (a@ == b@),
{ }
// ---- file system (sizes only)
pub struct Path { pub id: u64 }
pub struct Metadata { pub l: u64 }
/// size of the file at a path, as `metadata` reports it
pub uninterp spec fn file_len(p: u64) -> u64;
impl Metadata {
    pub fn len(&self) -> (r: u64) ensures r == self.l, { self.l }
}
#[verifier::external_body]
pub fn vfs_metadata(path: &Path) -> (r: Result<Metadata>)
    ensures r.is_ok() ==> r->Ok_0.l == file_len(path.id),
{ unimplemented!() }
/// std::fs::symlink_metadata: metadata of the path ITSELF — for a symbolic link that is the link (a few bytes), not the file that a later
/// `read` (which follows links) will load; only for a non-link path does it report the file's size
pub uninterp spec fn is_symlink(p: u64) -> bool;
#[verifier::external_body]
pub fn vfs_symlink_metadata(path: &Path) -> (r: Result<Metadata>)
    ensures r.is_ok() && !is_symlink(path.id) ==> r->Ok_0.l == file_len(path.id),
{ unimplemented!() }
// ---- canonical circuits (rebuilds from source; C17 compares artifacts against them)
pub uninterp spec fn canon_leaf_vk() -> int;
pub uninterp spec fn canon_leaf_common() -> CommonCircuitData<F, D>;
#[verifier::external_body]
pub fn canonical_leaf_verifier_data() -> (r: VerifierCircuitData<F, C, D>)
    ensures vk_of(&r.verifier_only) == canon_leaf_vk(), r.common == canon_leaf_common(),
{ unimplemented!() }
pub uninterp spec fn canon_pb_vk(leaf_vk: int, leaf_common: CommonCircuitData<F, D>, n: int) -> int;
pub uninterp spec fn canon_pb_common(leaf_vk: int, leaf_common: CommonCircuitData<F, D>, n: int) -> CommonCircuitData<F, D>;
#[verifier::external_body]
pub fn canonical_private_batch_verifier_data(leaf: &VerifierCircuitData<F, C, D>, num_leaf_proofs: usize) -> (r: Result<VerifierCircuitData<F, C, D>>)
    ensures r.is_ok() ==> vk_of(&r->Ok_0.verifier_only) == canon_pb_vk(vk_of(&leaf.verifier_only), leaf.common, num_leaf_proofs as int)
        && r->Ok_0.common == canon_pb_common(vk_of(&leaf.verifier_only), leaf.common, num_leaf_proofs as int),
{ unimplemented!() }
