// ---- prelude/anyhow.rs : error plumbing (TB-7). Errors carry no data: N8 drops all message text.
pub mod anyhow {
    pub struct Error { }
    pub type Result<T, E = Error> = core::result::Result<T, E>;
}
pub use anyhow::Error;
pub use anyhow::Result; // as in the repository's modules (`use anyhow::Result;`); the default parameter keeps 2-argument uses valid
impl core::fmt::Debug for Error { #[verifier::external_body] fn fmt(&self, f: &mut core::fmt::Formatter<'_>) -> core::fmt::Result { unimplemented!() } }
pub fn verr() -> Error { Error { } }
