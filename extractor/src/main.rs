//! vx — mechanical extractor: pulls named items out of /repo sources, applies a closed list of
//! local normalisation rules (see DESIGN.md §3), splices side-car contracts at function / loop
//! anchors and writes one Verus file per unit plus an extraction report.
//!
//! usage: vx <template.vrs> <repo_root> <verif_root> <out.rs> <report.json>
mod norm;

use proc_macro2::Span;
use serde_json::{json, Value};
use std::collections::BTreeMap;
use std::fs;
use std::process::exit;
use syn::spanned::Spanned;
use syn::visit_mut::VisitMut;

fn die(code: i32, msg: &str) -> ! {
    eprintln!("vx: {msg}");
    exit(code)
}

#[derive(Default, Debug)]
struct LoopSpec {
    invariant: String,
    body_prologue: String,
    body_epilogue: String,
    after: String,
}

#[derive(Default, Debug)]
struct Directive {
    file: String,
    selector: Vec<String>,
    props: Vec<String>,
    rename: Option<String>,
    ret: Option<String>,
    header: String,
    prologue: String,
    before_tail: String,
    after_tail: String,
    loops: BTreeMap<usize, LoopSpec>,
    before_return: BTreeMap<usize, String>,
    /// (line-prefix, text): proof text inserted before the first printed line starting with the prefix
    before_stmt: Vec<(String, String)>,
    /// (generated accumulator name, type): adds the annotation Rust's inference cannot supply through invariants
    let_types: Vec<(String, String)>,
    /// N14 effect threading: (kind, pattern, world method) with kind in call|method|drop-param, and the world parameter
    effects: Vec<(String, String, String)>,
    effect_param: Option<(String, String)>,
    from_fn: BTreeMap<usize, usize>,
    expect_loops: Option<usize>,
    /// N15 closure lifting: (let-bound name of the immediately invoked closure, helper fn name, helper parameter list text)
    lift: Option<(String, String, String)>,
    attrs: String,
    line: usize,
    /// parameters whose type is rewritten (N14 effect threading etc. are not done here; this is only
    /// `mut` removal) — unused for now
    opts: Vec<String>,
}

fn parse_template(text: &str) -> Vec<(bool, String, Option<Directive>)> {
    // returns segments: (is_directive, raw_text, directive)
    let mut out = Vec::new();
    let mut raw = String::new();
    let mut cur: Option<Directive> = None;
    let mut section: Option<String> = None; // current section name inside directive
    let mut cur_loop: usize = 0;
    for (ln, line) in text.lines().enumerate() {
        let t = line.trim_start();
        if let Some(rest) = t.strip_prefix("//@") {
            let rest = rest.trim();
            let mut it = rest.split_whitespace();
            let kw = it.next().unwrap_or("");
            let args: Vec<&str> = it.collect();
            if cur.is_none() {
                match kw {
                    "include" => {
                        out.push((false, std::mem::take(&mut raw), None));
                        out.push((false, format!("\u{1}INCLUDE {}", args[0]), None));
                    }
                    "extract" => {
                        out.push((false, std::mem::take(&mut raw), None));
                        let mut d = Directive { line: ln + 1, ..Default::default() };
                        d.file = args[0].to_string();
                        for a in &args[1..] {
                            if let Some(p) = a.strip_prefix("props=") {
                                d.props = p.split(',').map(|s| s.to_string()).collect();
                            } else if let Some(p) = a.strip_prefix("rename=") {
                                d.rename = Some(p.to_string());
                            } else if let Some(p) = a.strip_prefix("opt=") {
                                d.opts.push(p.to_string());
                            } else {
                                d.selector.push(a.to_string());
                            }
                        }
                        cur = Some(d);
                        section = None;
                    }
                    _ => die(3, &format!("template line {}: unknown directive {kw}", ln + 1)),
                }
            } else {
                let d = cur.as_mut().unwrap();
                match kw {
                    "end" => {
                        out.push((true, String::new(), cur.take()));
                        section = None;
                    }
                    "ret" => d.ret = Some(args[0].to_string()),
                    "let-type" => d.let_types.push((args[0].to_string(), args[1..].join(" "))),
                    "effect-param" => d.effect_param = Some((args[0].to_string(), args[1..].join(" "))),
                    "effect" => d.effects.push((args[0].to_string(), args[1].to_string(), args.get(2).unwrap_or(&"").to_string())),
                    "loops" => d.expect_loops = Some(args[0].parse().unwrap()),
                    "lift-closure" => {
                        // //@lift-closure <let name> <helper>(<params>)
                        let r = rest["lift-closure".len()..].trim();
                        let (nm, tail) = r.split_once(char::is_whitespace).unwrap_or((r, ""));
                        let tail = tail.trim();
                        let open = tail.find('(').unwrap_or(tail.len());
                        let helper = tail[..open].trim().to_string();
                        let params = tail[open..].trim().trim_start_matches('(').trim_end_matches(')').to_string();
                        d.lift = Some((nm.to_string(), helper, params));
                    }
                    "from_fn" => {
                        d.from_fn.insert(args[0].parse().unwrap(), args[1].parse().unwrap());
                    }
                    "header" | "prologue" | "before-tail" | "after-tail" | "attrs" => section = Some(kw.to_string()),
                    "loop" => {
                        cur_loop = args[0].parse().unwrap();
                        d.loops.entry(cur_loop).or_default();
                        section = None;
                    }
                    "invariant" | "body-prologue" | "body-epilogue" | "after-loop" => {
                        if let Some(a) = args.first() {
                            cur_loop = a.parse().unwrap();
                            d.loops.entry(cur_loop).or_default();
                        }
                        section = Some(format!("loop:{kw}"));
                    }
                    "before-stmt" => {
                        let pat = rest["before-stmt".len()..].trim().to_string();
                        d.before_stmt.push((pat, String::new()));
                        section = Some("stmt".to_string());
                    }
                    "after-stmt" => {
                        let pat = rest["after-stmt".len()..].trim().to_string();
                        d.before_stmt.push((format!("\u{2}{pat}"), String::new()));
                        section = Some("stmt".to_string());
                    }
                    "before-return" => {
                        let k: usize = args[0].parse().unwrap();
                        d.before_return.entry(k).or_default();
                        section = Some(format!("ret:{k}"));
                    }
                    _ => die(3, &format!("template line {}: unknown directive {kw}", ln + 1)),
                }
            }
            continue;
        }
        if let Some(d) = cur.as_mut() {
            let Some(sec) = &section else {
                if t.is_empty() { continue; }
                die(3, &format!("template line {}: text outside a section in extract block", ln + 1));
            };
            let tgt: &mut String = match sec.as_str() {
                "header" => &mut d.header,
                "prologue" => &mut d.prologue,
                "before-tail" => &mut d.before_tail,
                "after-tail" => &mut d.after_tail,
                "attrs" => &mut d.attrs,
                "loop:invariant" => &mut d.loops.get_mut(&cur_loop).unwrap().invariant,
                "loop:body-prologue" => &mut d.loops.get_mut(&cur_loop).unwrap().body_prologue,
                "loop:body-epilogue" => &mut d.loops.get_mut(&cur_loop).unwrap().body_epilogue,
                "loop:after-loop" => &mut d.loops.get_mut(&cur_loop).unwrap().after,
                "stmt" => &mut d.before_stmt.last_mut().unwrap().1,
                s if s.starts_with("ret:") => {
                    let k: usize = s[4..].parse().unwrap();
                    d.before_return.get_mut(&k).unwrap()
                }
                _ => unreachable!(),
            };
            tgt.push_str(line);
            tgt.push('\n');
        } else {
            raw.push_str(line);
            raw.push('\n');
        }
    }
    if cur.is_some() {
        die(3, "template: unterminated //@extract block");
    }
    out.push((false, raw, None));
    out
}

enum Found {
    Fn(syn::ItemFn),
    Method { imp: syn::ItemImpl, f: syn::ImplItemFn },
    Other(syn::Item),
}

fn type_last_ident(t: &syn::Type) -> Option<String> {
    match t {
        syn::Type::Path(p) => p.path.segments.last().map(|s| s.ident.to_string()),
        syn::Type::Reference(r) => type_last_ident(&r.elem),
        _ => None,
    }
}

fn find_item(items: &[syn::Item], sel: &[String], nth: &mut usize) -> Option<Found> {
    // selectors: ["fn", NAME] | ["impl", TYPE, "fn", NAME] | ["impl", TRAIT, "for", TYPE, "fn", NAME]
    //          | ["const"|"struct"|"enum"|"static"|"type", NAME] | ["mod", M, ...rest]
    // items declared inside a function / method body (local visitor structs and their impls)
    fn body_items(b: &syn::Block) -> Vec<syn::Item> {
        b.stmts.iter().filter_map(|s| if let syn::Stmt::Item(i) = s { Some(i.clone()) } else { None }).collect()
    }
    match sel[0].as_str() {
        "infn" => {
            for it in items {
                if let syn::Item::Fn(f) = it {
                    if f.sig.ident == sel[1] { return find_item(&body_items(&f.block), &sel[2..], nth); }
                }
            }
            None
        }
        "inmethod" => {
            // inmethod TRAIT for TYPE NAME rest...   |   inmethod TYPE NAME rest...
            let (tr, ty, name, rest) = if sel.len() > 4 && sel[2] == "for" {
                (Some(sel[1].clone()), sel[3].clone(), sel[4].clone(), &sel[5..])
            } else { (None, sel[1].clone(), sel[2].clone(), &sel[3..]) };
            for it in items {
                if let syn::Item::Impl(im) = it {
                    if type_last_ident(&im.self_ty).as_deref() != Some(ty.as_str()) { continue; }
                    let this_tr = im.trait_.as_ref().and_then(|(_, p, _)| p.segments.last().map(|s| s.ident.to_string()));
                    if this_tr != tr { continue; }
                    for ii in &im.items {
                        if let syn::ImplItem::Fn(f) = ii {
                            if f.sig.ident == name { return find_item(&body_items(&f.block), rest, nth); }
                        }
                    }
                }
            }
            None
        }
        "mod" => {
            for it in items {
                if let syn::Item::Mod(m) = it {
                    if m.ident == sel[1] {
                        if let Some((_, inner)) = &m.content {
                            return find_item(inner, &sel[2..], nth);
                        }
                    }
                }
            }
            None
        }
        "fn" => {
            for it in items {
                if let syn::Item::Fn(f) = it {
                    if f.sig.ident == sel[1] && norm::cfg_value(&f.attrs) != Some(false) {
                        return Some(Found::Fn(f.clone()));
                    }
                }
            }
            None
        }
        "impl" => {
            let (tr, ty, name) = if sel.len() >= 6 && sel[2] == "for" {
                (Some(sel[1].clone()), sel[3].clone(), sel[5].clone())
            } else {
                (None, sel[1].clone(), sel[3].clone())
            };
            for it in items {
                if let syn::Item::Impl(im) = it {
                    if type_last_ident(&im.self_ty).as_deref() != Some(ty.as_str()) {
                        continue;
                    }
                    let this_tr = im.trait_.as_ref().and_then(|(_, p, _)| p.segments.last().map(|s| s.ident.to_string()));
                    if this_tr != tr {
                        continue;
                    }
                    for ii in &im.items {
                        if let syn::ImplItem::Fn(f) = ii {
                            if f.sig.ident == name && norm::cfg_value(&f.attrs) != Some(false) {
                                if *nth > 1 { *nth -= 1; continue; }
                                return Some(Found::Method { imp: im.clone(), f: f.clone() });
                            }
                        }
                    }
                }
            }
            None
        }
        "use" => {
            // first `use` item whose token text mentions the given identifier
            for it in items {
                if let syn::Item::Use(u) = it {
                    let txt = quote::ToTokens::to_token_stream(u).to_string();
                    let words: Vec<&str> = txt.split(|c: char| !(c.is_alphanumeric() || c == '_')).collect();
                    if sel[1..].iter().all(|s| words.iter().any(|w| w == s)) {
                        return Some(Found::Other(it.clone()));
                    }
                }
            }
            None
        }
        "const" | "struct" | "enum" | "static" | "type" => {
            for it in items {
                let ok = match it {
                    syn::Item::Const(c) => sel[0] == "const" && c.ident == sel[1],
                    syn::Item::Static(c) => sel[0] == "static" && c.ident == sel[1],
                    syn::Item::Struct(c) => sel[0] == "struct" && c.ident == sel[1],
                    syn::Item::Enum(c) => sel[0] == "enum" && c.ident == sel[1],
                    syn::Item::Type(c) => sel[0] == "type" && c.ident == sel[1],
                    _ => false,
                };
                if ok {
                    return Some(Found::Other(it.clone()));
                }
            }
            None
        }
        _ => None,
    }
}

fn span_lines(s: Span) -> (usize, usize) {
    (s.start().line, s.end().line)
}

fn indent(s: &str, n: usize) -> String {
    let pad = " ".repeat(n);
    s.lines().map(|l| if l.trim().is_empty() { String::new() } else { format!("{pad}{}", l.trim_end()) }).collect::<Vec<_>>().join("\n")
}

fn subst_i(txt: &str, v: Option<&String>, hi: Option<&String>, out: Option<&String>) -> String {
    let t = match hi { Some(h) if !h.is_empty() => txt.replace("$hi", &format!("({h})")), _ => txt.to_string() };
    let t = match out { Some(o) => t.replace("$out", o), _ => t };
    match v { Some(v) if !v.is_empty() => t.replace("$i", v), _ => t }
}

/// Replace the marker statements printed by prettyplease with the side-car text.
fn splice(printed: &str, d: &Directive, nloops: usize, nrets: usize) -> Result<String, String> {
    let mut lines: Vec<String> = printed.lines().map(|s| s.to_string()).collect();
    // header
    let mut i = 0;
    let mut out: Vec<String> = Vec::new();
    let mut loop_var: BTreeMap<usize, String> = BTreeMap::new();
    let mut loop_hi: BTreeMap<usize, String> = BTreeMap::new();
    let mut loop_out: BTreeMap<usize, String> = BTreeMap::new();
    while i < lines.len() {
        let t = lines[i].trim().to_string();
        if t == "__vx_hdr!();" {
            // previous emitted line must end with '{'
            let prev = out.pop().ok_or("hdr marker at top")?;
            let p = prev.trim_end();
            if !p.ends_with('{') {
                return Err(format!("header anchor: previous line does not end with '{{': {prev}"));
            }
            let sig = p[..p.len() - 1].trim_end().to_string();
            if !sig.is_empty() {
                out.push(sig);
            }
            if !d.header.trim().is_empty() {
                out.push(indent(&d.header, 4));
            }
            out.push("{".to_string());
            if !d.prologue.trim().is_empty() {
                out.push(indent(&d.prologue, 4));
            }
        } else if let Some(k) = marker_arg(&t, "__vx_loop") {
            let prev = out.pop().ok_or("loop marker at top")?;
            let p = prev.trim_end();
            if !p.ends_with('{') {
                return Err(format!("loop anchor {k}: previous line does not end with '{{': {prev}"));
            }
            let head = p[..p.len() - 1].trim_end().to_string();
            let ind = prev.len() - prev.trim_start().len();
            // `$i` in this loop's side-car sections names the loop's own index variable, whatever the normaliser called it
            {
                let h = head.trim_start();
                let h = h.strip_prefix("for ").or_else(|| h.strip_prefix("while ")).unwrap_or("");
                let mut v: String = h.chars().take_while(|c| c.is_alphanumeric() || *c == '_').collect();
                if head.trim_start().starts_with("while ") {
                    // `while <guards> && <index> < <bound>`: the index is the identifier just before the first ` < `
                    if let Some(p) = h.find(" < ") {
                        let before = &h[..p];
                        let id: String = before.chars().rev().take_while(|c| c.is_alphanumeric() || *c == '_').collect::<String>().chars().rev().collect();
                        if !id.is_empty() { v = id; }
                    }
                }
                // `$hi`: the loop's upper bound as written after `..` (for-range loops) or after `<` (while loops)
                let hi: String = if let Some(p) = h.find("..") { h[p + 2..].trim().to_string() } else if let Some(p) = h.find('<') { h[p + 1..].trim().to_string() } else { String::new() };
                loop_hi.insert(k, hi.clone());
                // `$out`: the accumulator the normaliser declared immediately before this loop (`let mut __out_x ..` / `let mut __acc_x ..`)
                // (normaliser temporaries `let __src_x = ..` / `let __hi_x = ..` may sit between the accumulator and the loop)
                let mut back = 0;
                for pl in out.iter().rev() {
                    let t = pl.trim_start();
                    if let Some(rest) = t.strip_prefix("let mut __") {
                        let name: String = rest.chars().take_while(|c| c.is_alphanumeric() || *c == '_').collect();
                        if ["out", "acc", "max", "any", "all", "position"].iter().any(|p| name.starts_with(p)) { loop_out.insert(k, format!("__{name}")); break; }
                    }
                    // normaliser temporaries (possibly multi-line `let __hi_x = if .. { .. } else { .. };`) may intervene; another loop ends the search
                    if t.starts_with("for ") || t.starts_with("while ") || t.starts_with("loop ") || t.starts_with("invariant") || t.starts_with("__vx_") { break; }
                    back += 1;
                    if back > 16 { break; }
                }
                if let Ok(pth) = std::env::var("VX_LOOPVARS") {
                    use std::io::Write;
                    if let Ok(mut f) = std::fs::OpenOptions::new().create(true).append(true).open(pth) {
                        let _ = writeln!(f, "{}|{}|{}|{}|{}|{}", d.file, d.selector.join(" "), d.line, k, v, hi);
                    }
                }
                loop_var.insert(k, v);
            }
            out.push(head);
            if let Some(ls) = d.loops.get(&k) {
                if !ls.invariant.trim().is_empty() {
                    out.push(indent(&subst_i(&ls.invariant, loop_var.get(&k), loop_hi.get(&k), loop_out.get(&k)), ind + 4));
                }
                out.push(format!("{}{{", " ".repeat(ind)));
            } else {
                out.push(format!("{}{{", " ".repeat(ind)));
            }
        } else if let Some(k) = marker_arg(&t, "__vx_loop_body") {
            if let Some(ls) = d.loops.get(&k) {
                if !ls.body_prologue.trim().is_empty() {
                    let ind = lines[i].len() - lines[i].trim_start().len();
                    out.push(indent(&subst_i(&ls.body_prologue, loop_var.get(&k), loop_hi.get(&k), loop_out.get(&k)), ind));
                }
            }
        } else if let Some(k) = marker_arg(&t, "__vx_loop_end") {
            if let Some(ls) = d.loops.get(&k) {
                if !ls.body_epilogue.trim().is_empty() {
                    let ind = lines[i].len() - lines[i].trim_start().len();
                    out.push(indent(&subst_i(&ls.body_epilogue, loop_var.get(&k), loop_hi.get(&k), loop_out.get(&k)), ind));
                }
            }
        } else if let Some(k) = marker_arg(&t, "__vx_after_loop") {
            if let Some(ls) = d.loops.get(&k) {
                if !ls.after.trim().is_empty() {
                    let ind = lines[i].len() - lines[i].trim_start().len();
                    out.push(indent(&subst_i(&ls.after, loop_var.get(&k), loop_hi.get(&k), loop_out.get(&k)), ind));
                }
            }
        } else if let Some(k) = marker_arg(&t, "__vx_before_ret") {
            if let Some(txt) = d.before_return.get(&k) {
                let ind = lines[i].len() - lines[i].trim_start().len();
                out.push(indent(txt, ind));
            }
        } else if t == "__vx_after_tail!();" {
            if !d.after_tail.trim().is_empty() {
                let ind = lines[i].len() - lines[i].trim_start().len();
                out.push(indent(&d.after_tail, ind));
            }
        } else if t == "__vx_tail!();" {
            if !d.before_tail.trim().is_empty() {
                let ind = lines[i].len() - lines[i].trim_start().len();
                out.push(indent(&d.before_tail, ind));
            }
        } else {
            out.push(std::mem::take(&mut lines[i]));
        }
        i += 1;
    }
    // A function that has become LOOP-FREE needs no invariants: the side-car's loop sections are moot, and the remaining contract
    // (requires / ensures / statement hints) decides the new body as it would any straight-line code. With SOME loops left but
    // fewer or more than annotated, which invariant belongs to which loop is a guess: anchor lost.
    let loops_gone = nloops == 0 && (!d.loops.is_empty() || d.expect_loops.map(|n| n > 0).unwrap_or(false));
    if loops_gone {
        eprintln!("vx: NOTE: {}: every annotated loop is gone from the source; loop sections of the side-car dropped, contract checked on the loop-free body", d.selector.join(" "));
    }
    for k in d.loops.keys() {
        if *k >= nloops && !loops_gone {
            return Err(format!("side-car names loop {k} but the function has {nloops} loops (anchor lost)"));
        }
    }
    for k in d.before_return.keys() {
        if *k >= nrets {
            return Err(format!("side-car names return {k} but the function has {nrets} returns (anchor lost)"));
        }
    }
    if let Some(n) = d.expect_loops {
        if n != nloops && !loops_gone {
            return Err(format!("side-car expects {n} loops, function has {nloops} (anchor lost)"));
        }
    }
    for (pat, txt) in &d.before_stmt {
        let mut done = false;
        let mut out2: Vec<String> = Vec::new();
        let after = pat.starts_with('\u{2}');
        let pat = pat.trim_start_matches('\u{2}');
        // `#k <prefix>` selects the k-th statement starting with the prefix (default: first)
        let (mut skip, pat): (usize, &str) = match pat.strip_prefix('#') {
            Some(rest) => {
                let (num, p) = rest.split_once(' ').unwrap_or((rest, ""));
                (num.parse::<usize>().unwrap_or(1).saturating_sub(1), p.trim_start())
            }
            None => (0, pat),
        };
        let mut pending: Option<usize> = None; // indentation of the matched statement (after-stmt)
        let mut depth: i64 = 0; // bracket depth inside the matched statement: it ends on the first line that closes every bracket it opened
        for l in out.into_iter() {
            let is_match = !done && pending.is_none() && l.trim_start().starts_with(pat);
            if is_match && skip > 0 { skip -= 1; out2.push(l); continue; }
            if is_match {
                let ind = l.len() - l.trim_start().len();
                if after { pending = Some(ind); depth = 0; } else {
                    out2.push(indent(txt, ind));
                    done = true;
                }
            }
            if pending.is_some() { depth += bracket_delta(&l); }
            let is_end = pending.is_some() && depth <= 0 && (l.trim_end().ends_with(';') || l.trim_end().ends_with('}'));
            out2.push(l);
            if is_end {
                out2.push(indent(txt, pending.unwrap()));
                pending = None;
                done = true;
            }
        }
        out = out2;
        if !done {
            return Err(format!("side-car anchor `{}-stmt {pat}` not found in the function (anchor lost)", if after { "after" } else { "before" }));
        }
    }
    let mut s = out.join("\n");
    for (name, ty) in &d.let_types {
        let from_mut = format!("let mut {name} = ");
        let from = format!("let {name} = ");
        if s.contains(&from_mut) {
            s = s.replacen(&from_mut, &format!("let mut {name}: {ty} = "), 1);
        } else if s.contains(&from) {
            s = s.replacen(&from, &format!("let {name}: {ty} = "), 1);
        } else if s.contains(&format!("let mut {name}: ")) || s.contains(&format!("let {name}: ")) {
            // the source itself declares the binding's type: nothing to add
        } else if loops_gone && name.starts_with("__") {
            // the normaliser temporary belonged to a loop that no longer exists
        } else {
            return Err(format!("side-car let-type {name}: binding not found (anchor lost)"));
        }
    }
    // named return value
    if let Some(r) = &d.ret {
        if let Some(pos) = s.find("__vx_ret!(") {
            // find matching paren
            let start = pos + "__vx_ret!(".len();
            let bytes = s.as_bytes();
            let mut depth = 1;
            let mut j = start;
            while j < bytes.len() && depth > 0 {
                match bytes[j] {
                    b'(' => depth += 1,
                    b')' => depth -= 1,
                    _ => {}
                }
                j += 1;
            }
            let inner = s[start..j - 1].to_string();
            s = format!("{}({}: {}){}", &s[..pos], r, inner.trim(), &s[j..]);
        }
    }
    Ok(s)
}


/// Vacuity guard: a proof-fn twin with the same parameters and `requires`, but `ensures false`.
/// It must FAIL to verify; if it verifies the precondition is contradictory (or the prelude inconsistent).
fn canary_for(sig: &syn::Signature, header: &str, imp: Option<&syn::ItemImpl>) -> Option<String> {
    let mut req = String::new();
    let mut in_req = false;
    for l in header.lines() {
        let t = l.trim_start();
        if t.starts_with("requires") { in_req = true; }
        else if t.starts_with("ensures") || t.starts_with("decreases") { in_req = false; }
        if in_req { req.push_str(l); req.push('\n'); }
    }
    if req.trim().is_empty() { return None; }
    let mut sig = sig.clone();
    sig.ident = syn::Ident::new(&format!("__canary_req_{}", sig.ident), sig.ident.span());
    sig.output = syn::ReturnType::Default;
    sig.constness = None; sig.asyncness = None; sig.unsafety = None;
    for a in sig.inputs.iter_mut() {
        match a {
            syn::FnArg::Typed(t) => {
                if let syn::Pat::Ident(pi) = &mut *t.pat { pi.mutability = None; }
                if let syn::Type::Reference(r) = &mut *t.ty { r.mutability = None; }
            }
            syn::FnArg::Receiver(_) => { *a = syn::parse_quote!(&self); }
        }
    }
    let f = syn::ItemFn { attrs: vec![], vis: syn::Visibility::Inherited, sig, block: Box::new(syn::parse_quote!({})) };
    let printed = match imp {
        None => prettyplease::unparse(&syn::File { shebang: None, attrs: vec![], items: vec![syn::Item::Fn(f)] }),
        Some(im) => {
            let mut im = im.clone();
            im.attrs.clear(); im.trait_ = None;
            im.items = vec![syn::ImplItem::Fn(syn::ImplItemFn { attrs: vec![], vis: syn::Visibility::Inherited, defaultness: None, sig: f.sig, block: *f.block })];
            prettyplease::unparse(&syn::File { shebang: None, attrs: vec![], items: vec![syn::Item::Impl(im)] })
        }
    };
    // de-`old`: old(x) -> x
    let mut r = String::new();
    let mut rest = req.as_str();
    while let Some(p) = rest.find("old(") {
        let pre_ok = p == 0 || !rest.as_bytes()[p - 1].is_ascii_alphanumeric() && rest.as_bytes()[p - 1] != b'_';
        r.push_str(&rest[..p]);
        if pre_ok {
            let tail = &rest[p + 4..];
            let close = tail.find(')').unwrap_or(0);
            r.push_str(&tail[..close]);
            rest = &tail[close + 1..];
        } else {
            r.push_str("old(");
            rest = &rest[p + 4..];
        }
    }
    r.push_str(rest);
    // printed ends with "{}" possibly inside an impl; replace the fn's `{}` body
    let pos = printed.rfind("{}")?;
    let body = format!("\n{}\n    ensures false,\n{{ }}", indent(&r, 4));
    let mut out = format!("{}{}{}", &printed[..pos].trim_end(), body, &printed[pos + 2..]);
    // make it a proof fn
    out = out.replacen("fn __canary_req_", "proof fn __canary_req_", 1);
    Some(out)
}

fn marker_arg(t: &str, name: &str) -> Option<usize> {
    let pre = format!("{name}!(");
    if t.starts_with(&pre) && t.ends_with(");") {
        t[pre.len()..t.len() - 2].trim().parse().ok()
    } else {
        None
    }
}


/// N25 (opt=flatten): `crate::a::b::x` / `plonky2::a::b::X` paths are cut to their last segment — the unit flattens the module
/// tree, so a fully qualified path names the same item as its last segment (a clash is a Rust error in the unit)
struct FlattenPaths(usize);
impl VisitMut for FlattenPaths {
    fn visit_path_mut(&mut self, p: &mut syn::Path) {
        syn::visit_mut::visit_path_mut(self, p);
        if p.segments.len() == 3 && p.segments[0].ident == "std" && p.segments[1].ident == "fs" {
            // `std::fs::f` names the unit's trusted file-system stub `vfs_f` (TB-8)
            let last = syn::Ident::new(&format!("vfs_{}", p.segments[2].ident), Span::call_site());
            let mut np = syn::punctuated::Punctuated::new();
            np.push(syn::PathSegment::from(last));
            p.segments = np; p.leading_colon = None; self.0 += 1;
            return;
        }
        if p.segments.len() > 2 {
            let first = p.segments[0].ident.to_string();
            if first == "crate" || first == "plonky2" || (first == "std" && p.segments[1].ident == "path") {
                let last = p.segments.last().unwrap().clone();
                let mut np = syn::punctuated::Punctuated::new();
                np.push(last);
                p.segments = np;
                p.leading_colon = None;
                self.0 += 1;
            }
        }
    }
}


/// N27: a type parameter bounded only by `AsRef<T>` is instantiated at `&T`; `x.as_ref()` on such a parameter becomes `x`
/// (the conversion is the caller's; the body only ever sees the `&T`)
fn inst_asref(sig: &mut syn::Signature, block: &mut syn::Block) -> usize {
    let mut inst: Vec<(String, syn::Type)> = vec![];
    let mut keep = syn::punctuated::Punctuated::new();
    for gp in sig.generics.params.clone() {
        let mut taken = false;
        if let syn::GenericParam::Type(tp) = &gp {
            if tp.bounds.len() == 1 {
                if let syn::TypeParamBound::Trait(tb) = &tp.bounds[0] {
                    let last = tb.path.segments.last().unwrap();
                    if last.ident == "AsRef" {
                        if let syn::PathArguments::AngleBracketed(ab) = &last.arguments {
                            if let Some(syn::GenericArgument::Type(t)) = ab.args.first() {
                                inst.push((tp.ident.to_string(), t.clone()));
                                taken = true;
                            }
                        }
                    }
                }
            }
        }
        if !taken { keep.push(gp); }
    }
    if inst.is_empty() { return 0; }
    sig.generics.params = keep;
    let mut vars: Vec<String> = vec![];
    for a in sig.inputs.iter_mut() {
        if let syn::FnArg::Typed(pt) = a {
            if let syn::Type::Path(tp) = &*pt.ty {
                if let Some(id) = tp.path.get_ident() {
                    if let Some((_, t)) = inst.iter().find(|(n, _)| id == n) {
                        let t = t.clone();
                        pt.ty = Box::new(syn::parse_quote!(&#t));
                        if let syn::Pat::Ident(pi) = &*pt.pat { vars.push(pi.ident.to_string()); }
                    }
                }
            }
        }
    }
    struct R<'a>(&'a [String]);
    impl<'a> VisitMut for R<'a> {
        fn visit_expr_mut(&mut self, e: &mut syn::Expr) {
            syn::visit_mut::visit_expr_mut(self, e);
            if let syn::Expr::MethodCall(m) = e {
                if m.method == "as_ref" && m.args.is_empty() {
                    if let syn::Expr::Path(p) = &*m.receiver {
                        if let Some(id) = p.path.get_ident() {
                            if self.0.contains(&id.to_string()) { *e = (*m.receiver).clone(); }
                        }
                    }
                }
            }
        }
    }
    R(&vars).visit_block_mut(block);
    inst.len()
}


/// N15: `let X = (|| -> T { body })();` — an immediately invoked closure (used for `?` scoping) — is lambda-lifted: the body
/// becomes `fn helper(captures) -> T { body }` and the initialiser becomes `helper(captures)`. The captured variables are
/// computed here (identifiers used in the body that are parameters or earlier locals of the enclosing function, in order of
/// first use); their TYPES come from the signature or, for locals, from the side-car's scope table. A capture of reference or
/// primitive type is passed by value, anything else by shared reference. A wrong table is a Rust error in the unit.
/// Returns the helper when `want_helper`, and rewrites `f` in place otherwise.
fn lift_closure(f: &mut syn::ItemFn, lift: &(String, String, String), want_helper: bool) -> Result<Option<syn::ItemFn>, String> {
    let (letname, helper, table) = lift;
    let table_p: syn::punctuated::Punctuated<syn::FnArg, syn::Token![,]> =
        syn::parse::Parser::parse_str(syn::punctuated::Punctuated::parse_terminated, table).map_err(|e| format!("lift-closure scope table: {e}"))?;
    let mut types: Vec<(String, syn::Type)> = vec![];
    for a in f.sig.inputs.iter().chain(table_p.iter()) {
        if let syn::FnArg::Typed(pt) = a { if let syn::Pat::Ident(pi) = &*pt.pat { types.push((pi.ident.to_string(), (*pt.ty).clone())); } }
    }
    struct Uses(Vec<String>);
    impl<'ast> syn::visit::Visit<'ast> for Uses {
        fn visit_expr_path(&mut self, p: &'ast syn::ExprPath) {
            if let Some(id) = p.path.get_ident() { let s = id.to_string(); if !self.0.contains(&s) { self.0.push(s); } }
        }
        fn visit_macro(&mut self, _m: &'ast syn::Macro) {}
    }
    let mut scope: Vec<String> = f.sig.inputs.iter().filter_map(|a| if let syn::FnArg::Typed(pt) = a { if let syn::Pat::Ident(pi) = &*pt.pat { Some(pi.ident.to_string()) } else { None } } else { None }).collect();
    for st in f.block.stmts.iter_mut() {
        if let syn::Stmt::Local(l) = st {
            // the target is found by SHAPE — the first `let <ident> = (closure)()` — so renaming the local does not lose the anchor;
            // the name in the side-car is a label only
            let _ = letname;
            let bound: Option<String> = if let syn::Pat::Ident(pi) = &l.pat { Some(pi.ident.to_string()) } else if let syn::Pat::Type(pt) = &l.pat { if let syn::Pat::Ident(pi) = &*pt.pat { Some(pi.ident.to_string()) } else { None } } else { None };
            let mut is_iife = false;
            if let (Some(_), Some(init)) = (&bound, &l.init) {
                if let syn::Expr::Call(c) = &*init.expr {
                    if c.args.is_empty() {
                        let mut inner = &*c.func;
                        while let syn::Expr::Paren(p) = inner { inner = &*p.expr; }
                        is_iife = matches!(inner, syn::Expr::Closure(_));
                    }
                }
            }
            if !is_iife { if let Some(b) = bound { scope.push(b); } continue; }
            let init = l.init.as_mut().unwrap();
            let call = match &*init.expr { syn::Expr::Call(c) => c.clone(), _ => unreachable!() };
            let mut inner = &*call.func;
            while let syn::Expr::Paren(p) = inner { inner = &*p.expr; }
            let syn::Expr::Closure(cl) = inner else { unreachable!() };
            if !cl.inputs.is_empty() { return Err("lift-closure: closure takes parameters".into()); }
            let syn::ReturnType::Type(_, rty) = &cl.output else { return Err("lift-closure: closure has no declared return type".into()) };
            let body: syn::Block = match &*cl.body { syn::Expr::Block(b) => b.block.clone(), e => syn::parse_quote!({ #e }) };
            let mut u = Uses(vec![]);
            syn::visit::Visit::visit_block(&mut u, &body);
            let mut params: Vec<syn::FnArg> = vec![];
            let mut args: Vec<syn::Expr> = vec![];
            for name in u.0.iter().filter(|n| scope.contains(n)) {
                let Some((_, ty)) = types.iter().find(|(n, _)| n == name) else { return Err(format!("lift-closure: captured local `{name}` has no type in the side-car scope table")) };
                let id = syn::Ident::new(name, Span::call_site());
                let by_value = match ty {
                    syn::Type::Reference(_) => true,
                    syn::Type::Path(tp) => tp.path.get_ident().map(|i| ["bool", "usize", "u8", "u16", "u32", "u64", "u128", "isize", "i8", "i16", "i32", "i64", "char"].contains(&i.to_string().as_str())).unwrap_or(false),
                    _ => false,
                };
                if by_value { params.push(syn::parse_quote!(#id: #ty)); args.push(syn::parse_quote!(#id)); }
                else { params.push(syn::parse_quote!(#id: &#ty)); args.push(syn::parse_quote!(&#id)); }
            }
            let name = syn::Ident::new(helper, Span::call_site());
            if want_helper {
                let rty = (**rty).clone();
                let hf: syn::ItemFn = syn::parse_quote!(fn #name(#(#params),*) -> #rty #body);
                return Ok(Some(hf));
            }
            init.expr = Box::new(syn::parse_quote!(#name(#(#args),*)));
            return Ok(None);
        }
    }
    Err(format!("lift-closure: no `let <name> = (closure)()` in the function (anchor lost; label {letname})"))
}

fn main() {
    let args: Vec<String> = std::env::args().collect();
    let emit_canaries = std::env::var("VX_CANARIES").map(|v| v == "1").unwrap_or(false);
    if args.len() != 6 {
        die(3, "usage: vx <template> <repo_root> <verif_root> <out.rs> <report.json>");
    }
    let tmpl = fs::read_to_string(&args[1]).unwrap_or_else(|e| die(3, &format!("read template: {e}")));
    let repo = &args[2];
    let vroot = &args[3];
    // `//@include-template <path>`: textual inclusion of another template (may contain //@extract blocks)
    fn expand(text: &str, vroot: &str, depth: usize) -> String {
        if depth > 8 { die(3, "include-template nesting too deep"); }
        let mut out = String::new();
        for line in text.lines() {
            if let Some(rest) = line.trim_start().strip_prefix("//@include-template") {
                let path = format!("{vroot}/{}", rest.trim());
                let t = fs::read_to_string(&path).unwrap_or_else(|e| die(3, &format!("include-template {path}: {e}")));
                out.push_str(&expand(&t, vroot, depth + 1));
                if !out.ends_with('\n') { out.push('\n'); }
            } else {
                out.push_str(line);
                out.push('\n');
            }
        }
        out
    }
    let tmpl = expand(&tmpl, vroot, 0);
    let segs = parse_template(&tmpl);
    // N30 bookkeeping: constant names the unit already defines (extracted by a directive, or written in the template / a prelude include)
    let mut declared_consts: std::collections::BTreeSet<String> = Default::default();
    {
        fn scan(txt: &str, acc: &mut std::collections::BTreeSet<String>) {
            for l in txt.lines() {
                let t = l.trim_start();
                let t = t.strip_prefix("pub(crate) ").or_else(|| t.strip_prefix("pub ")).unwrap_or(t);
                if let Some(r) = t.strip_prefix("const ") {
                    let name: String = r.chars().take_while(|c| c.is_alphanumeric() || *c == '_').collect();
                    if !name.is_empty() { acc.insert(name); }
                }
            }
        }
        for (is_dir, raw, dir) in &segs {
            if *is_dir {
                if let Some(d) = dir { if let Some(pos) = d.selector.iter().position(|x| x == "const") { if let Some(nm) = d.selector.get(pos + 1) { declared_consts.insert(nm.clone()); } } }
            } else if let Some(pth) = raw.strip_prefix("\u{1}INCLUDE ") {
                if let Ok(t) = fs::read_to_string(format!("{vroot}/{pth}")) { scan(&t, &mut declared_consts); }
            } else { scan(raw, &mut declared_consts); }
        }
    }
    let mut out = String::new();
    let mut items_report: Vec<Value> = Vec::new();
    let mut includes: Vec<Value> = Vec::new();
    let mut parsed: BTreeMap<String, (String, syn::File)> = BTreeMap::new();
    let mut problems: Vec<String> = Vec::new();
    let cur_line = |s: &String| s.matches('\n').count() + 1;

    for (is_dir, raw, dir) in segs {
        if !is_dir {
            if let Some(p) = raw.strip_prefix("\u{1}INCLUDE ") {
                let path = format!("{vroot}/{p}");
                let txt = fs::read_to_string(&path).unwrap_or_else(|e| die(3, &format!("include {path}: {e}")));
                let l0 = cur_line(&out);
                out.push_str(&txt);
                if !txt.ends_with('\n') {
                    out.push('\n');
                }
                includes.push(json!({"path": p, "out_lines": [l0, cur_line(&out) - 1]}));
            } else {
                out.push_str(&raw);
            }
            continue;
        }
        let d = dir.unwrap();
        let path = format!("{repo}/{}", d.file);
        if !parsed.contains_key(&d.file) {
            let src = match fs::read_to_string(&path) {
                Ok(s) => s,
                Err(e) => {
                    problems.push(format!("missing source file {}: {e}", d.file));
                    continue;
                }
            };
            let f = match syn::parse_file(&src) {
                Ok(f) => f,
                Err(e) => {
                    problems.push(format!("cannot parse {}: {e}", d.file));
                    continue;
                }
            };
            parsed.insert(d.file.clone(), (src, f));
        }
        let (src, file) = parsed.get(&d.file).unwrap();
        let mut nth: usize = d.opts.iter().find_map(|o| o.strip_prefix("nth=").and_then(|v| v.parse().ok())).unwrap_or(1);
        let Some(found) = find_item(&file.items, &d.selector, &mut nth) else {
            problems.push(format!("item not found: {} {}", d.file, d.selector.join(" ")));
            continue;
        };
        let src_lines: Vec<&str> = src.lines().collect();
        let mut n = norm::Norm::new(d.from_fn.clone());
        n.map_kind = d.opts.iter().find_map(|o| o.strip_prefix("map=").map(|v| v.to_string()));
        n.want_after_tail = !d.after_tail.trim().is_empty();
        n.vunwrap = d.opts.iter().any(|o| o == "vunwrap");
        n.extend_owned = d.opts.iter().any(|o| o == "extend-owned");
        n.elems_field = d.opts.iter().find_map(|o| o.strip_prefix("elems:").map(|v| v.to_string()));
        for o in &d.opts {
            if let Some(v) = o.strip_prefix("via:") { if let Some((a, b)) = v.split_once(':') { n.via.push((a.to_string(), b.to_string())); } }
            if let Some(v) = o.strip_prefix("drain:") { n.drain.push(v.to_string()); }
        }
        let mut canary: Option<String> = None;
        let mut audit: Option<Vec<String>> = None;
        let mut fn_attrs_done = false;
        let (printed, span, nloops, nrets) = match found {
            Found::Other(mut it) => {
                let sp = span_lines(it.span());
                // derives named in the side-car's //@attrs must be derives of the source item (never invented)
                {
                    let src_attrs: &[syn::Attribute] = match &it { syn::Item::Struct(s) => &s.attrs, syn::Item::Enum(e) => &e.attrs, _ => &[] };
                    let mut have: Vec<String> = vec![];
                    for a in src_attrs {
                        if a.path().is_ident("derive") {
                            let _ = a.parse_nested_meta(|m| { if let Some(id) = m.path.segments.last() { have.push(id.ident.to_string()); } Ok(()) });
                        }
                    }
                    if let Ok(want) = syn::parse::Parser::parse_str(syn::Attribute::parse_outer, &d.attrs) {
                        for a in &want {
                            if a.path().is_ident("derive") {
                                let mut missing: Vec<String> = vec![];
                                let _ = a.parse_nested_meta(|m| { if let Some(id) = m.path.segments.last() { let s = id.ident.to_string(); if !have.contains(&s) { missing.push(s); } } Ok(()) });
                                for m in missing { problems.push(format!("{} {}: side-car derive({m}) is not derived by the source item (anchor lost)", d.file, d.selector.join(" "))); }
                            }
                        }
                    }
                }
                // N31 (opt=serde-facts): the struct's `#[serde(rename = "..")]` / `#[serde(alias = "..")]` field attributes, which the extraction
                // otherwise drops, are translated into spec constants — serde_derive's documented meaning: `rename` replaces the key that is
                // WRITTEN and READ, each `alias` adds a key that is READ
                let mut serde_facts = String::new();
                if d.opts.iter().any(|o| o == "serde-facts") {
                    if let syn::Item::Struct(st) = &it {
                        let sname = st.ident.to_string();
                        for f in st.fields.iter() {
                            let Some(fid) = &f.ident else { continue };
                            let fname = fid.to_string();
                            let mut rename: Option<String> = None;
                            let mut aliases: Vec<String> = vec![];
                            let mut other = false;
                            for a in &f.attrs {
                                if a.path().is_ident("serde") {
                                    let r = a.parse_nested_meta(|m| {
                                        if m.path.is_ident("rename") { let v: syn::LitStr = m.value()?.parse()?; rename = Some(v.value()); }
                                        else if m.path.is_ident("alias") { let v: syn::LitStr = m.value()?.parse()?; aliases.push(v.value()); }
                                        else { other = true; if m.input.peek(syn::Token![=]) { let _: syn::Expr = m.value()?.parse()?; } }
                                        Ok(())
                                    });
                                    if r.is_err() { other = true; }
                                }
                            }
                            if other { problems.push(format!("{} {}: field {fname} carries a serde attribute other than rename / alias (not translated; anchor lost)", d.file, d.selector.join(" "))); }
                            let written = rename.clone().unwrap_or_else(|| fname.clone());
                            let mut reads: Vec<String> = vec![written.clone()];
                            for al in &aliases { if !reads.contains(al) { reads.push(al.clone()); } }
                            let ident_ok = |k: &str| !k.is_empty() && k.chars().all(|c| c.is_ascii_alphanumeric() || c == '_');
                            serde_facts.push_str(&format!("/// serde keys of {sname}.{fname} (rule N31): written as \"{written}\", read from {reads:?}\n"));
                            serde_facts.push_str(&format!("pub open spec fn serde_{sname}_{fname}_written_as_field_name() -> bool {{ {} }}\n", written == fname));
                            serde_facts.push_str(&format!("pub open spec fn serde_{sname}_{fname}_reads_field_name() -> bool {{ {} }}\n", reads.contains(&fname)));
                            serde_facts.push_str(&format!("pub open spec fn serde_{sname}_{fname}_read_key_count() -> int {{ {} }}\n", reads.len()));
                            for k in &reads {
                                if *k != fname && ident_ok(k) { serde_facts.push_str(&format!("pub open spec fn serde_{sname}_{fname}_reads_{k}() -> bool {{ true }}\n")); }
                            }
                        }
                        n.rules.push(norm::RuleApp { rule: "N31".into(), line: span_lines(it.span()).0, note: format!("serde rename/alias field attributes of {sname} translated into spec constants") });
                    }
                }
                norm::strip_item_attrs(&mut it);
                {
                    let mut f = norm::FoldShl(0);
                    f.visit_item_mut(&mut it);
                    if f.0 > 0 { n.rules.push(norm::RuleApp { rule: "N23".into(), line: sp.0, note: format!("{} literal shift(s) folded", f.0) }); }
                }
                // structs: every field made `pub` (the unit is one crate; privacy is not what is being verified)
                if let syn::Item::Enum(en) = &mut it { en.vis = syn::Visibility::Public(Default::default()); }
                if let syn::Item::Const(c) = &mut it { c.vis = syn::Visibility::Public(Default::default()); }
                if let syn::Item::Struct(st) = &mut it {
                    let mut widened = !matches!(st.vis, syn::Visibility::Public(_));
                    st.vis = syn::Visibility::Public(Default::default());
                    for f in st.fields.iter_mut() {
                        if !matches!(f.vis, syn::Visibility::Public(_)) { f.vis = syn::Visibility::Public(Default::default()); widened = true; }
                    }
                    if widened { n.rules.push(norm::RuleApp { rule: "N12".into(), line: sp.0, note: "struct and its fields made pub in the unit".into() }); }
                }
                // const/static items: elided reference lifetimes are 'static (made explicit for the verus! macro)
                {
                    struct St;
                    impl VisitMut for St {
                        fn visit_type_reference_mut(&mut self, r: &mut syn::TypeReference) {
                            if r.lifetime.is_none() { r.lifetime = Some(syn::Lifetime::new("'static", Span::call_site())); }
                            syn::visit_mut::visit_type_reference_mut(self, r);
                        }
                    }
                    match &mut it {
                        syn::Item::Const(c) => St.visit_type_mut(&mut c.ty),
                        syn::Item::Static(c) => St.visit_type_mut(&mut c.ty),
                        _ => {}
                    }
                }
                // module relocation: `use super::x` -> `use <path>::x` when the unit flattens the module tree
                for o in &d.opts {
                    if let Some(path) = o.strip_prefix("rebase_super=") {
                        if let syn::Item::Use(u) = &mut it {
                            if let syn::UseTree::Path(up) = &mut u.tree {
                                if up.ident == "super" {
                                    let rest = (*up.tree).clone();
                                    let mut tree = rest;
                                    for seg in path.split("::").collect::<Vec<_>>().into_iter().rev() {
                                        tree = syn::UseTree::Path(syn::UsePath { ident: syn::Ident::new(seg, Span::call_site()), colon2_token: Default::default(), tree: Box::new(tree) });
                                    }
                                    u.tree = tree;
                                    n.rules.push(norm::RuleApp { rule: "N12".into(), line: sp.0, note: format!("use super:: re-rooted at {path} (module tree flattened in the unit)") });
                                }
                            }
                        }
                    }
                }
                let f = syn::File { shebang: None, attrs: vec![], items: vec![it] };
                (format!("{}{}", prettyplease::unparse(&f), serde_facts), sp, 0, 0)
            }
            Found::Fn(mut f) => {
                let sp = span_lines(f.span());
                let src_block = (*f.block).clone();
                f.attrs.clear();
                if !d.attrs.trim().is_empty() {
                    if let Ok(a) = syn::parse::Parser::parse_str(syn::Attribute::parse_outer, &d.attrs) { f.attrs = a; fn_attrs_done = true; }
                }
                if d.opts.iter().any(|o| o == "contract-only") {
                    f.block = Box::new(syn::parse_quote!({ unimplemented!() }));
                    f.attrs.push(syn::parse_quote!(#[verifier::external_body]));
                    fn_attrs_done = true;
                    n.rules.push(norm::RuleApp { rule: "TRUSTED".into(), line: sp.0, note: "contract-only: body dropped, contract assumed".into() });
                }
                if let Some(l) = &d.lift {
                    let want_helper = d.opts.iter().any(|o| o == "lifted");
                    match lift_closure(&mut f, l, want_helper) {
                        Ok(Some(h)) => { f = h; }
                        Ok(None) => {}
                        Err(e) => { problems.push(format!("{} {}: {e}", d.file, d.selector.join(" "))); continue; }
                    }
                    n.rules.push(norm::RuleApp { rule: "N15".into(), line: sp.0, note: format!("immediately invoked closure `{}` lambda-lifted to fn {}", l.0, l.1) });
                }
                if let Some(r) = &d.rename {
                    f.sig.ident = syn::Ident::new(r, f.sig.ident.span());
                }
                if let Some((w, ty)) = &d.effect_param { norm::thread_effects(&mut f.sig, &mut f.block, w, ty, &d.effects, &mut n); }
                if d.opts.iter().any(|o| o == "flatten") {
                    let mut fl = FlattenPaths(0);
                    fl.visit_signature_mut(&mut f.sig); fl.visit_block_mut(&mut f.block);
                    if fl.0 > 0 { n.rules.push(norm::RuleApp { rule: "N25".into(), line: sp.0, note: format!("{} qualified path(s) cut to the last segment", fl.0) }); }
                }
                { let k = inst_asref(&mut f.sig, &mut f.block); if k > 0 { n.rules.push(norm::RuleApp { rule: "N27".into(), line: sp.0, note: format!("{k} AsRef<T> type parameter(s) instantiated at &T") }); } }
                if emit_canaries { canary = canary_for(&f.sig, &d.header, None); }
                n.run_fn(&mut f.sig, &mut f.block, d.ret.is_some());
                if !d.opts.iter().any(|o| o == "contract-only") && d.lift.is_none() { audit = Some(token_audit(&src_block, &f.block, &n.rules, &d.effects)); }
                let mut items: Vec<syn::Item> = std::mem::take(&mut n.hoisted);
                items.push(syn::Item::Fn(f));
                let file = syn::File { shebang: None, attrs: vec![], items };
                (prettyplease::unparse(&file), sp, n.nloops, n.nrets)
            }
            Found::Method { mut imp, mut f } => {
                let sp = span_lines(f.span());
                let src_block = f.block.clone();
                f.attrs.clear();
                if !d.attrs.trim().is_empty() {
                    if let Ok(a) = syn::parse::Parser::parse_str(syn::Attribute::parse_outer, &d.attrs) { f.attrs = a; fn_attrs_done = true; }
                }
                if let Some(r) = &d.rename {
                    f.sig.ident = syn::Ident::new(r, f.sig.ident.span());
                }
                if imp.trait_.is_some() {
                    // associated types of the trait impl (`type Targets = X;`) are substituted for `Self::Targets`
                    let mut assoc: Vec<(String, syn::Type)> = vec![];
                    for ii in &imp.items {
                        if let syn::ImplItem::Type(t) = ii { assoc.push((t.ident.to_string(), t.ty.clone())); }
                    }
                    struct Sub<'a>(&'a Vec<(String, syn::Type)>);
                    impl<'a> VisitMut for Sub<'a> {
                        fn visit_type_mut(&mut self, t: &mut syn::Type) {
                            if let syn::Type::Path(tp) = t {
                                if tp.qself.is_none() && tp.path.segments.len() == 2 && tp.path.segments[0].ident == "Self" {
                                    let nm = tp.path.segments[1].ident.to_string();
                                    if let Some((_, ty)) = self.0.iter().find(|(n, _)| *n == nm) { *t = ty.clone(); return; }
                                }
                            }
                            syn::visit_mut::visit_type_mut(self, t);
                        }
                        fn visit_path_mut(&mut self, p: &mut syn::Path) {
                            // `Self::Targets { .. }` in patterns / struct expressions
                            if p.segments.len() == 2 && p.segments[0].ident == "Self" {
                                let nm = p.segments[1].ident.to_string();
                                if let Some((_, syn::Type::Path(tp))) = self.0.iter().find(|(n, _)| *n == nm) { *p = tp.path.clone(); return; }
                            }
                            syn::visit_mut::visit_path_mut(self, p);
                        }
                    }
                    let mut sub = Sub(&assoc);
                    sub.visit_impl_item_fn_mut(&mut f);
                }
                // side-car `opt=repath=<a::b>=<c>`: a leading module path in the signature is re-rooted at a prelude module (N25b)
                for o in &d.opts {
                    if let Some(v) = o.strip_prefix("repath=") {
                        if let Some((from, to)) = v.split_once('=') {
                            let from: Vec<String> = from.split("::").map(|x| x.to_string()).collect();
                            struct Rp<'a> { from: &'a Vec<String>, to: &'a str, k: usize }
                            impl<'a> VisitMut for Rp<'a> {
                                fn visit_path_mut(&mut self, p: &mut syn::Path) {
                                    if p.segments.len() > self.from.len() && self.from.iter().enumerate().all(|(i, s)| p.segments[i].ident == s) {
                                        let rest: Vec<syn::PathSegment> = p.segments.iter().skip(self.from.len()).cloned().collect();
                                        let mut np: syn::Path = syn::parse_str(self.to).unwrap();
                                        for r in rest { np.segments.push(r); }
                                        *p = np; self.k += 1;
                                    }
                                    syn::visit_mut::visit_path_mut(self, p);
                                }
                            }
                            let mut rp = Rp { from: &from, to, k: 0 };
                            rp.visit_signature_mut(&mut f.sig);
                            if rp.k > 0 { n.rules.push(norm::RuleApp { rule: "N25".into(), line: sp.0, note: format!("{} signature path(s) {} re-rooted at {}", rp.k, from.join("::"), to) }); }
                        }
                    }
                }
                if d.opts.iter().any(|o| o == "private") { f.vis = syn::Visibility::Inherited; }
                if d.opts.iter().any(|o| o == "contract-only") {
                    // the signature is /repo's, the body is NOT verified: the side-car contract is an assumption (listed in the report)
                    f.block = syn::parse_quote!({ unimplemented!() });
                    f.attrs.push(syn::parse_quote!(#[verifier::external_body]));
                    fn_attrs_done = true;
                    n.rules.push(norm::RuleApp { rule: "TRUSTED".into(), line: sp.0, note: "contract-only: body dropped, contract assumed".into() });
                }
                if d.opts.iter().any(|o| o == "flatten") {
                    let mut fl = FlattenPaths(0);
                    fl.visit_signature_mut(&mut f.sig); fl.visit_block_mut(&mut f.block);
                    if fl.0 > 0 { n.rules.push(norm::RuleApp { rule: "N25".into(), line: sp.0, note: format!("{} qualified path(s) cut to the last segment", fl.0) }); }
                }
                { let k = inst_asref(&mut f.sig, &mut f.block); if k > 0 { n.rules.push(norm::RuleApp { rule: "N27".into(), line: sp.0, note: format!("{k} AsRef<T> type parameter(s) instantiated at &T") }); } }
                if let Some((w, ty)) = &d.effect_param { norm::thread_effects(&mut f.sig, &mut f.block, w, ty, &d.effects, &mut n); }
                if emit_canaries { canary = canary_for(&f.sig, &d.header, Some(&imp)); }
                n.run_fn(&mut f.sig, &mut f.block, d.ret.is_some());
                if !d.opts.iter().any(|o| o == "contract-only") { audit = Some(token_audit(&src_block, &f.block, &n.rules, &d.effects)); }
                imp.attrs.clear();
                if imp.trait_.is_some() {
                    // N12: trait-impl method emitted as an inherent method of the same type
                    n.rules.push(norm::RuleApp { rule: "N12".into(), line: sp.0, note: "trait impl method emitted as inherent method".into() });
                    imp.trait_ = None;
                    f.vis = syn::Visibility::Public(Default::default());
                }
                imp.items = vec![syn::ImplItem::Fn(f)];
                let file = syn::File { shebang: None, attrs: vec![], items: vec![syn::Item::Impl(imp)] };
                (prettyplease::unparse(&file), sp, n.nloops, n.nrets)
            }
        };
        // N30: module-level constants of the SAME source file that the extracted function names, and that the unit does not define yet, are
        // extracted with it (a refactor that names a literal must not make the unit fail to compile)
        let mut auto_consts = String::new();
        if !d.selector.iter().any(|x| x == "const") {
            let mut work: Vec<String> = {
                let mut names: Vec<String> = vec![];
                let mut cur = String::new();
                for ch in printed.chars().chain(std::iter::once(' ')) {
                    if ch.is_alphanumeric() || ch == '_' { cur.push(ch); } else {
                        if cur.len() > 1 && cur.chars().next().map(|c| c.is_ascii_uppercase()).unwrap_or(false) && cur.chars().all(|c| c.is_ascii_uppercase() || c.is_ascii_digit() || c == '_') { names.push(cur.clone()); }
                        cur.clear();
                    }
                }
                names
            };
            while let Some(nm) = work.pop() {
                if declared_consts.contains(&nm) { continue; }
                let hit = file.items.iter().find_map(|it| if let syn::Item::Const(c) = it { if c.ident == nm { Some(c.clone()) } else { None } } else { None });
                if let Some(mut c) = hit {
                    declared_consts.insert(nm.clone());
                    c.attrs.clear();
                    c.vis = syn::Visibility::Public(Default::default());
                    let mut it = syn::Item::Const(c);
                    { let mut f = norm::FoldShl(0); f.visit_item_mut(&mut it); }
                    let txt = prettyplease::unparse(&syn::File { shebang: None, attrs: vec![], items: vec![it] });
                    // constants the definition itself names
                    let mut cur = String::new();
                    for ch in txt.chars().chain(std::iter::once(' ')) {
                        if ch.is_alphanumeric() || ch == '_' { cur.push(ch); } else {
                            if cur.len() > 1 && cur != nm && cur.chars().next().map(|c| c.is_ascii_uppercase()).unwrap_or(false) && cur.chars().all(|c| c.is_ascii_uppercase() || c.is_ascii_digit() || c == '_') { work.push(cur.clone()); }
                            cur.clear();
                        }
                    }
                    auto_consts.push_str(&txt);
                    n.rules.push(norm::RuleApp { rule: "N30".into(), line: 0, note: format!("module constant {nm} of the same file extracted with the function") });
                }
            }
        }
        for e in &n.errors {
            problems.push(format!("{} {}: {e}", d.file, d.selector.join(" ")));
        }
        let spliced = match splice(&printed, &d, nloops, nrets) {
            Ok(s) => s,
            Err(e) => {
                problems.push(format!("{} {}: {e}", d.file, d.selector.join(" ")));
                continue;
            }
        };
        if !auto_consts.is_empty() { out.push_str(&auto_consts); }
        let l0 = cur_line(&out);
        if !d.attrs.trim().is_empty() && !fn_attrs_done {
            out.push_str(d.attrs.trim_end());
            out.push('\n');
        }
        out.push_str(&spliced);
        out.push('\n');
        let l1 = cur_line(&out) - 1;
        let mut canary_lines: Option<(usize, usize)> = None;
        if let Some(c) = &canary {
            let c0 = cur_line(&out);
            out.push_str(c);
            out.push('\n');
            canary_lines = Some((c0, cur_line(&out) - 1));
        }
        let src_text = src_lines[span.0 - 1..span.1].join("\n");
        items_report.push(json!({
            "file": d.file, "selector": d.selector.join(" "), "props": d.props,
            "src_lines": [span.0, span.1], "out_lines": [l0, l1],
            "src_text": src_text,
            "loops": nloops, "returns": nrets,
            "rules": n.rules.iter().map(|r| json!({"rule": r.rule, "src_line": r.line, "note": r.note})).collect::<Vec<_>>(),
            "dropped": n.dropped,
            "template_line": d.line,
            "canary_lines": canary_lines.map(|(a, b)| vec![a, b]),
            "audit_missing": audit,
        }));
    }
    let report = json!({"template": args[1], "items": items_report, "includes": includes, "problems": problems});
    fs::write(&args[5], serde_json::to_string_pretty(&report).unwrap()).unwrap();
    fs::write(&args[4], out).unwrap();
    if !problems.is_empty() {
        for p in &problems {
            eprintln!("vx: PROBLEM: {p}");
        }
        exit(2);
    }
}

// keep VisitMut import used
#[allow(dead_code)]
fn _unused(v: &mut dyn VisitMut) {
    let _ = v;
}

/// net bracket depth change of one line of pretty-printed Rust (string / char literals and line comments skipped)
fn bracket_delta(l: &str) -> i64 {
    let b: Vec<char> = l.chars().collect();
    let mut d = 0i64;
    let mut i = 0;
    while i < b.len() {
        match b[i] {
            '"' => { i += 1; while i < b.len() && b[i] != '"' { if b[i] == '\\' { i += 1; } i += 1; } }
            '\'' => {
                // char literal ('x', '\n', '\'') vs lifetime ('a): a literal closes within 4 chars
                if i + 2 < b.len() && b[i + 1] != '\\' && b[i + 2] == '\'' { i += 2; }
                else if i + 3 < b.len() && b[i + 1] == '\\' && b[i + 3] == '\'' { i += 3; }
            }
            '/' if i + 1 < b.len() && b[i + 1] == '/' => break,
            '(' | '[' | '{' => d += 1,
            ')' | ']' | '}' => d -= 1,
            _ => {}
        }
        i += 1;
    }
    d
}

/// Translation validation, lightweight (DESIGN §3.2): every comparison / arithmetic / logical operator, every integer literal and every
/// call or method name of the SOURCE body must still occur in the normalised body at least as often — except the method names the
/// normaliser's rules consume by definition (iterator adapters, error-context wrappers, ...). Macro bodies are token streams to syn
/// and are skipped on both sides (the normaliser only ever moves their conditions OUT into code). Returns the missing items.
fn token_audit(src: &syn::Block, out: &syn::Block, rules: &[norm::RuleApp], effects: &[(String, String, String)]) -> Vec<String> {
    use syn::visit::Visit;
    #[derive(Default)]
    struct Col(BTreeMap<String, i64>);
    impl<'a> Visit<'a> for Col {
        fn visit_expr_binary(&mut self, b: &'a syn::ExprBinary) {
            let op = quote::ToTokens::to_token_stream(&b.op).to_string();
            *self.0.entry(format!("op {op}")).or_default() += 1;
            syn::visit::visit_expr_binary(self, b);
        }
        fn visit_expr_unary(&mut self, u: &'a syn::ExprUnary) {
            if matches!(u.op, syn::UnOp::Not(_) | syn::UnOp::Neg(_)) { *self.0.entry(format!("unop {}", quote::ToTokens::to_token_stream(&u.op))).or_default() += 1; }
            syn::visit::visit_expr_unary(self, u);
        }
        fn visit_lit_int(&mut self, l: &'a syn::LitInt) {
            if let Ok(v) = l.base10_parse::<u128>() { *self.0.entry(format!("int {v}")).or_default() += 1; }
        }
        fn visit_expr_method_call(&mut self, m: &'a syn::ExprMethodCall) {
            *self.0.entry(format!("call {}", m.method)).or_default() += 1;
            syn::visit::visit_expr_method_call(self, m);
        }
        fn visit_expr_call(&mut self, c: &'a syn::ExprCall) {
            if let syn::Expr::Path(p) = &*c.func { if let Some(l) = p.path.segments.last() { *self.0.entry(format!("call {}", l.ident)).or_default() += 1; } }
            syn::visit::visit_expr_call(self, c);
        }
    }
    // consumed by a rule (closed list; each is replaced by an explicit loop, a match, or a model function of the same meaning)
    const CONSUMED: &[&str] = &["iter", "iter_mut", "into_iter", "enumerate", "zip", "map", "collect", "sum", "fold", "all", "any", "position", "max", "filter",
        "filter_map", "rev", "take", "skip", "copied", "cloned", "flatten", "chunks", "chunks_exact", "values", "keys", "context", "with_context", "map_err", "ok_or_else",
        "ok_or", "retain", "entry", "or_default", "unwrap_or_default", "unwrap_or_else", "unwrap_or", "extend", "count", "chars", "from", "from_utf8", "from_le_bytes",
        "to_le_bytes", "try_into", "into", "as_ref", "as_slice", "to_vec", "debug_struct", "field", "finish", "add_many", "mul_many", "copy_from_slice", "display",
        "is_some_and", "from_fn", "Ok", "Err", "Some", "then", "then_some", "and_then", "ok", "len", "iter_mut", "expect", "chain", "once", "or_insert", "try_from"];
    // names of closures bound by `let name = |..| ..` in the source: calls of them are inlined / lifted by the normaliser
    #[derive(Default)]
    struct Clos(Vec<String>);
    impl<'a> Visit<'a> for Clos {
        fn visit_local(&mut self, l: &'a syn::Local) {
            if let (syn::Pat::Ident(pi), Some(init)) = (&l.pat, &l.init) { if matches!(&*init.expr, syn::Expr::Closure(_)) { self.0.push(pi.ident.to_string()); } }
            syn::visit::visit_local(self, l);
        }
    }
    let mut cl = Clos::default();
    cl.visit_block(src);
    let has = |r: &str| rules.iter().any(|x| x.rule == r);
    let effect_names: Vec<String> = effects.iter().map(|e| e.1.rsplit("::").next().unwrap_or("").to_string()).collect();
    let (mut a, mut b) = (Col::default(), Col::default());
    a.visit_block(src);
    b.visit_block(out);
    let mut missing = vec![];
    for (k, n) in &a.0 {
        let mut m = b.0.get(k).copied().unwrap_or(0);
        if let Some(name) = k.strip_prefix("call ") {
            if CONSUMED.contains(&name) || cl.0.iter().any(|c| c == name) || effect_names.iter().any(|e| e == name) { continue; }
            // a std call renamed to the unit's model function of the same name (vfs_metadata, vsort, vtry_from, ...)
            for pre in ["v", "vfs_", "v_"] { m += b.0.get(&format!("call {pre}{name}")).copied().unwrap_or(0); }
        }
        // N23 folds literal shifts (`1 << 32`), N10 drops statements under a cfg that is off, N12 hoists a function-local datatype (its array
        // lengths leave the body), an effect `pass` with a drop index removes an injected-effect closure argument: their tokens legitimately vanish
        if has("N23") && (k == "op <<" || k.starts_with("int ")) { continue; }
        if has("N12") && k.starts_with("int ") { continue; }
        if has("N21") && (k == "op ==" || k == "op !=") { continue; }   // N21c: a comparison of range-indexed places becomes a vslice_eq call
        if k.starts_with("call ") && effects.iter().any(|e| e.0 == "pass" && e.2.parse::<usize>().is_ok()) { continue; }
        if has("N10") { continue; }
        if m < *n { missing.push(format!("{k} x{}", n - m)); }
    }
    missing
}
