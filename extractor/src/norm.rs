//! Normalisation rules N1..N16 (DESIGN.md §3.1). Every rule is local, syntax-directed and looks
//! only at std / macro names — never at repository identifiers.
use proc_macro2::Span;
use quote::quote;
use std::collections::BTreeMap;
use syn::parse::Parser;
use syn::punctuated::Punctuated;
use syn::spanned::Spanned;
use syn::visit::Visit;
use syn::visit_mut::{self, VisitMut};
use syn::{parse_quote, Block, Expr, Ident, Pat, Stmt, Token};

pub struct RuleApp {
    pub rule: String,
    pub line: usize,
    pub note: String,
}

pub struct Norm {
    pub rules: Vec<RuleApp>,
    pub dropped: Vec<String>,
    pub errors: Vec<String>,
    pub nloops: usize,
    pub nrets: usize,
    /// function-local struct/enum items hoisted to module level (Verus has no local datatypes)
    pub hoisted: Vec<syn::Item>,
    /// side-car type hint for non-iterator `.map(f)`: "result" | "option" (a wrong hint is a Rust type error in the unit)
    pub map_kind: Option<String>,
    tmp: usize,
    hint: String,
    names: BTreeMap<String, usize>,
    /// (span of the initialiser, declared type) of the `let` being visited, so a collect() that IS the
    /// initialiser can give its accumulator the declared type
    let_ctx: Option<((usize, usize, usize, usize), syn::Type)>,
    out_ty: Option<syn::Type>,
    /// N5r: span of a `.collect::<Result<Vec<_>, _>>()` that is directly followed by `?` (set at the Try node, consumed by the collect rule)
    result_collect: Option<(usize, usize, usize, usize)>,
    result_collect_done: bool,
    collect_as_result: bool,
    from_fn: BTreeMap<usize, usize>,
    from_fn_idx: usize,
    /// side-car `opt=via:<place>:<fn>`: iteration over the non-indexable collection `<place>` (a std set / map) goes through the
    /// prelude model function `<fn>(&place)` returning its elements as a Vec (every element exactly once, order unspecified)
    pub via: Vec<(String, String)>,
    /// side-car `opt=drain:<binder>`: an owned `.into_iter()` whose closure binder is <binder> moves non-Copy elements out
    /// front to back (`remove(0)`) instead of indexing
    pub drain: Vec<String>,
    pub want_after_tail: bool,
    /// side-car `opt=vunwrap`: rule N8e is applied in this function
    pub vunwrap: bool,
    pub elems_field: Option<String>,
    /// side-car `opt=extend-owned`: `.extend(E)` with an arbitrary owned array / Vec expression E -> `{ let __e = E; v.extend_from_slice(&__e) }`
    pub extend_owned: bool,
}

fn id(s: &str) -> Ident {
    Ident::new(s, Span::call_site())
}

/// N23: `<int literal> << <int literal>` folded to its value (keeps the left literal's type suffix)
pub struct FoldShl(pub usize);
impl VisitMut for FoldShl {
    fn visit_expr_mut(&mut self, e: &mut Expr) {
        visit_mut::visit_expr_mut(self, e);
        if let Expr::Binary(b) = e {
            if matches!(b.op, syn::BinOp::Shl(_)) {
                if let (Expr::Lit(syn::ExprLit { lit: syn::Lit::Int(l), .. }), Expr::Lit(syn::ExprLit { lit: syn::Lit::Int(r), .. })) = (strip_paren(&b.left), strip_paren(&b.right)) {
                    if let (Ok(lv), Ok(rv)) = (l.base10_parse::<u128>(), r.base10_parse::<u32>()) {
                        if let Some(v) = lv.checked_shl(rv) {
                            if rv < 127 && (v >> rv) == lv {
                                let lit = syn::LitInt::new(&format!("{}{}", v, l.suffix()), l.span());
                                *e = Expr::Lit(syn::ExprLit { attrs: vec![], lit: syn::Lit::Int(lit) });
                                self.0 += 1;
                            }
                        }
                    }
                }
            }
        }
    }
}

pub fn strip_item_attrs(it: &mut syn::Item) {
    struct S;
    impl VisitMut for S {
        fn visit_attributes_mut(&mut self, a: &mut Vec<syn::Attribute>) {
            a.clear();
        }
    }
    S.visit_item_mut(it);
}

/// Evaluate `#[cfg(..)]` attributes under the configuration the checks verify: default features of every crate
/// (std, multithread ON; profile, no_zk, verif-hooks OFF), not(test), unix/linux. None = no cfg attribute.
pub fn cfg_value(attrs: &[syn::Attribute]) -> Option<bool> {
    fn eval(m: &syn::Meta) -> bool {
        match m {
            syn::Meta::Path(p) => p.is_ident("unix"),
            syn::Meta::NameValue(nv) => {
                let val = match &nv.value {
                    Expr::Lit(syn::ExprLit { lit: syn::Lit::Str(s), .. }) => s.value(),
                    _ => String::new(),
                };
                if nv.path.is_ident("feature") { matches!(val.as_str(), "std" | "multithread") }
                else if nv.path.is_ident("target_os") { val == "linux" }
                else if nv.path.is_ident("target_family") { val == "unix" }
                else { false }
            }
            syn::Meta::List(l) => {
                let inner: Vec<syn::Meta> = l.parse_args_with(Punctuated::<syn::Meta, Token![,]>::parse_terminated).map(|p| p.into_iter().collect()).unwrap_or_default();
                if l.path.is_ident("not") { !inner.first().map(eval).unwrap_or(false) }
                else if l.path.is_ident("all") { inner.iter().all(eval) }
                else if l.path.is_ident("any") { inner.iter().any(eval) }
                else { false }
            }
        }
    }
    let mut res: Option<bool> = None;
    for a in attrs {
        if a.path().is_ident("cfg") {
            if let syn::Meta::List(l) = &a.meta {
                if let Ok(m) = l.parse_args::<syn::Meta>() {
                    let v = eval(&m);
                    res = Some(res.unwrap_or(true) && v);
                }
            }
        }
    }
    res
}

fn stmt_attrs(s: &Stmt) -> Vec<syn::Attribute> {
    match s {
        Stmt::Local(l) => l.attrs.clone(),
        Stmt::Macro(m) => m.attrs.clone(),
        Stmt::Item(syn::Item::Use(u)) => u.attrs.clone(),
        Stmt::Item(syn::Item::Fn(f)) => f.attrs.clone(),
        Stmt::Item(syn::Item::Const(f)) => f.attrs.clone(),
        Stmt::Expr(e, _) => expr_attrs(e),
        _ => vec![],
    }
}
fn expr_attrs(e: &Expr) -> Vec<syn::Attribute> {
    match e {
        Expr::Return(x) => x.attrs.clone(), Expr::Call(x) => x.attrs.clone(), Expr::MethodCall(x) => x.attrs.clone(),
        Expr::Block(x) => x.attrs.clone(), Expr::If(x) => x.attrs.clone(), Expr::Macro(x) => x.attrs.clone(),
        Expr::Assign(x) => x.attrs.clone(), Expr::ForLoop(x) => x.attrs.clone(), Expr::While(x) => x.attrs.clone(),
        Expr::Path(x) => x.attrs.clone(), Expr::Struct(x) => x.attrs.clone(), Expr::Match(x) => x.attrs.clone(),
        Expr::Let(x) => x.attrs.clone(), Expr::Try(x) => x.attrs.clone(), Expr::Unsafe(x) => x.attrs.clone(),
        _ => vec![],
    }
}
fn clear_expr_attrs(e: &mut Expr) {
    match e {
        Expr::Return(x) => x.attrs.clear(), Expr::Call(x) => x.attrs.clear(), Expr::MethodCall(x) => x.attrs.clear(),
        Expr::Block(x) => x.attrs.clear(), Expr::If(x) => x.attrs.clear(), Expr::Macro(x) => x.attrs.clear(),
        Expr::Assign(x) => x.attrs.clear(), Expr::ForLoop(x) => x.attrs.clear(), Expr::While(x) => x.attrs.clear(),
        Expr::Path(x) => x.attrs.clear(), Expr::Struct(x) => x.attrs.clear(), Expr::Match(x) => x.attrs.clear(),
        Expr::Let(x) => x.attrs.clear(), Expr::Try(x) => x.attrs.clear(), Expr::Unsafe(x) => x.attrs.clear(),
        _ => {}
    }
}

fn macro_name(m: &syn::Macro) -> String {
    m.path.segments.last().map(|s| s.ident.to_string()).unwrap_or_default()
}

fn macro_args(m: &syn::Macro) -> Option<Vec<Expr>> {
    let p = Punctuated::<Expr, Token![,]>::parse_terminated;
    p.parse2(m.tokens.clone()).ok().map(|p| p.into_iter().collect())
}

fn is_simple(e: &Expr) -> bool {
    match e {
        Expr::Path(_) | Expr::Lit(_) => true,
        Expr::Field(f) => is_simple(&f.base),
        Expr::Reference(r) => r.mutability.is_none() && is_simple(&r.expr),
        Expr::Paren(p) => is_simple(&p.expr),
        Expr::MethodCall(m) => m.method == "len" && m.args.is_empty() && is_simple(&m.receiver),
        _ => false,
    }
}

fn strip_paren(e: &Expr) -> &Expr {
    match e {
        Expr::Paren(p) => strip_paren(&p.expr),
        Expr::Group(g) => strip_paren(&g.expr),
        _ => e,
    }
}

thread_local! {
    /// names of the current function's parameters whose declared type is a shared reference
    static REF_PARAMS: std::cell::RefCell<std::collections::BTreeSet<String>> = std::cell::RefCell::new(Default::default());
}

#[derive(Clone)]
enum Src {
    Range { lo: Expr, hi: Expr },
    Index { base: Expr, by_ref: bool },
    /// `xs.iter_mut()`: the binder is `&mut xs[i]`; handled by substituting `*binder` with `xs[i]`
    IndexMut { base: Expr },
    /// `xs.chunks(n)`: chunk i is xs[i*n .. min(i*n+n, len)], ceil(len/n) chunks (std docs)
    Chunks { base: Expr, size: Expr, exact: bool },
}

#[derive(Clone)]
enum Adapter {
    Rev,
    Enumerate,
    Take(Expr),
    Skip(Expr),
    Zip(Box<Iter>),
    Map(syn::ExprClosure),
    /// `.filter_map(f)`: only as the last adapter before `.collect()`
    FilterMap(syn::ExprClosure),
    /// `.filter(p)`: only as the last adapter of a `for` loop's iterator
    Filter(syn::ExprClosure),
    Flatten,
    /// `m.values()`: the value half of each (key, &value) entry of the map's model view (only with a side-car `opt=via:<place>:<fn>`)
    Values,
}

#[derive(Clone)]
struct Iter {
    src: Src,
    adapters: Vec<Adapter>,
}

/// Recognise an iterator-producing expression built from std combinators only.
fn parse_iter(e: &Expr, bare_ok: bool) -> Option<Iter> {
    let e = strip_paren(e);
    match e {
        Expr::Range(r) => {
            if !matches!(r.limits, syn::RangeLimits::HalfOpen(_)) {
                return None;
            }
            let lo = r.start.as_ref().map(|b| (**b).clone()).unwrap_or_else(|| parse_quote!(0));
            let hi = (**r.end.as_ref()?).clone();
            Some(Iter { src: Src::Range { lo, hi }, adapters: vec![] })
        }
        Expr::MethodCall(m) => {
            let name = m.method.to_string();
            let args: Vec<&Expr> = m.args.iter().collect();
            match (name.as_str(), args.len()) {
                ("iter_mut", 0) => Some(Iter { src: Src::IndexMut { base: (*m.receiver).clone() }, adapters: vec![] }),
                ("chunks", 1) => Some(Iter { src: Src::Chunks { base: (*m.receiver).clone(), size: args[0].clone(), exact: false }, adapters: vec![] }),
                ("chunks_exact", 1) => Some(Iter { src: Src::Chunks { base: (*m.receiver).clone(), size: args[0].clone(), exact: true }, adapters: vec![] }),
                ("flatten", 0) => {
                    let mut it = parse_iter(&m.receiver, false)?;
                    it.adapters.push(Adapter::Flatten);
                    Some(it)
                }
                ("iter", 0) => Some(Iter { src: Src::Index { base: (*m.receiver).clone(), by_ref: true }, adapters: vec![] }),
                ("values", 0) => Some(Iter { src: Src::Index { base: (*m.receiver).clone(), by_ref: true }, adapters: vec![Adapter::Values] }),
                ("into_iter", 0) => Some(Iter { src: Src::Index { base: (*m.receiver).clone(), by_ref: false }, adapters: vec![] }),
                ("copied", 0) | ("cloned", 0) => {
                    let mut it = parse_iter(&m.receiver, false)?;
                    if !it.adapters.is_empty() {
                        return None;
                    }
                    if let Src::Index { by_ref, .. } = &mut it.src {
                        *by_ref = false;
                        Some(it)
                    } else {
                        None
                    }
                }
                ("rev", 0) => {
                    let mut it = parse_iter(&m.receiver, false)?;
                    it.adapters.push(Adapter::Rev);
                    Some(it)
                }
                ("enumerate", 0) => {
                    let mut it = parse_iter(&m.receiver, false)?;
                    it.adapters.push(Adapter::Enumerate);
                    Some(it)
                }
                ("take", 1) => {
                    let mut it = parse_iter(&m.receiver, false)?;
                    it.adapters.push(Adapter::Take(args[0].clone()));
                    Some(it)
                }
                ("skip", 1) => {
                    let mut it = parse_iter(&m.receiver, false)?;
                    it.adapters.push(Adapter::Skip(args[0].clone()));
                    Some(it)
                }
                ("zip", 1) => {
                    let mut it = parse_iter(&m.receiver, false)?;
                    let other = parse_iter(args[0], true)?;
                    it.adapters.push(Adapter::Zip(Box::new(other)));
                    Some(it)
                }
                ("filter", 1) => {
                    let mut it = parse_iter(&m.receiver, false)?;
                    match strip_paren(args[0]) {
                        Expr::Closure(c) => { it.adapters.push(Adapter::Filter(c.clone())); Some(it) }
                        _ => None,
                    }
                }
                ("filter_map", 1) => {
                    let mut it = parse_iter(&m.receiver, false)?;
                    match strip_paren(args[0]) {
                        Expr::Closure(c) => { it.adapters.push(Adapter::FilterMap(c.clone())); Some(it) }
                        _ => None,
                    }
                }
                ("map", 1) => {
                    let mut it = parse_iter(&m.receiver, false)?;
                    match strip_paren(args[0]) {
                        Expr::Closure(c) => {
                            it.adapters.push(Adapter::Map(c.clone()));
                            Some(it)
                        }
                        // `.map(f)` with a function path is `.map(|x| f(x))`
                        Expr::Path(p) => {
                            let c: syn::ExprClosure = parse_quote!(|__x| #p(__x));
                            it.adapters.push(Adapter::Map(c));
                            Some(it)
                        }
                        _ => None,
                    }
                }
                _ if bare_ok => Some(Iter { src: Src::Index { base: e.clone(), by_ref: false }, adapters: vec![] }),
                _ => None,
            }
        }
        Expr::Reference(r) if bare_ok && r.mutability.is_some() => {
            // `for x in &mut xs` is `xs.iter_mut()`
            Some(Iter { src: Src::IndexMut { base: (*r.expr).clone() }, adapters: vec![] })
        }
        Expr::Reference(r) if bare_ok && r.mutability.is_none() => {
            Some(Iter { src: Src::Index { base: (*r.expr).clone(), by_ref: true }, adapters: vec![] })
        }
        Expr::Path(p) if bare_ok && p.path.get_ident().map(|i| REF_PARAMS.with(|r| r.borrow().contains(&i.to_string()))).unwrap_or(false) => {
            // `for x in param` where `param: &[T; N]` / `&Vec<T>`: iteration by reference
            Some(Iter { src: Src::Index { base: e.clone(), by_ref: true }, adapters: vec![] })
        }
        Expr::Path(_) | Expr::Field(_) if bare_ok => Some(Iter { src: Src::Index { base: e.clone(), by_ref: false }, adapters: vec![] }),
        // `for x in f(..)` over an owned Vec result: bound to a temporary and indexed by value
        Expr::Call(_) if bare_ok => Some(Iter { src: Src::Index { base: e.clone(), by_ref: false }, adapters: vec![] }),
        _ => None,
    }
}

/// `let &x = &e` == `let x = e` (for Copy e); `let (&a, &b) = (&e1, &e2)` likewise. Returns simplified (pat, elem).
fn strip_ref_pat(pat: &Pat, elem: &Expr) -> (Pat, Expr) {
    match (pat, elem) {
        (Pat::Reference(pr), Expr::Reference(er)) if pr.mutability.is_none() && er.mutability.is_none() => ((*pr.pat).clone(), (*er.expr).clone()),
        (Pat::Tuple(pt), Expr::Tuple(et)) if pt.elems.len() == et.elems.len() => {
            let mut ps = pt.clone();
            let mut es = et.clone();
            for (p, e) in ps.elems.iter_mut().zip(es.elems.iter_mut()) {
                let (np, ne) = strip_ref_pat(p, e);
                *p = np;
                *e = ne;
            }
            (Pat::Tuple(ps), Expr::Tuple(es))
        }
        _ => (pat.clone(), elem.clone()),
    }
}

/// `&base`, or `base` itself when it is a parameter that already is a shared reference
fn ref_of(base: &Expr) -> Expr {
    if let Expr::Path(p) = strip_paren(base) {
        if let Some(i) = p.path.get_ident() {
            if REF_PARAMS.with(|r| r.borrow().contains(&i.to_string())) {
                return base.clone();
            }
        }
    }
    parse_quote!(&#base)
}

/// does the loop body `continue` the loop itself (not a nested one)?
fn has_continue(stmts: &[Stmt]) -> bool {
    struct C(bool);
    impl<'x> Visit<'x> for C {
        fn visit_expr_continue(&mut self, _: &'x syn::ExprContinue) { self.0 = true; }
        fn visit_expr_for_loop(&mut self, _: &'x syn::ExprForLoop) {}
        fn visit_expr_while(&mut self, _: &'x syn::ExprWhile) {}
        fn visit_expr_loop(&mut self, _: &'x syn::ExprLoop) {}
        fn visit_expr_closure(&mut self, _: &'x syn::ExprClosure) {}
    }
    let mut c = C(false);
    for s in stmts { c.visit_stmt(s); }
    c.0
}

fn span_key(s: Span) -> (usize, usize, usize, usize) {
    (s.start().line, s.start().column, s.end().line, s.end().column)
}

fn pat_hint(p: &Pat) -> String {
    struct V(Vec<String>);
    impl<'a> Visit<'a> for V {
        fn visit_pat_ident(&mut self, i: &'a syn::PatIdent) {
            self.0.push(i.ident.to_string());
        }
    }
    let mut v = V(vec![]);
    v.visit_pat(p);
    v.0.last().cloned().unwrap_or_default().trim_start_matches('_').to_string()
}

struct HasReturn(bool);
impl<'a> Visit<'a> for HasReturn {
    fn visit_expr_return(&mut self, _: &'a syn::ExprReturn) {
        self.0 = true;
    }
    fn visit_expr_try(&mut self, _: &'a syn::ExprTry) {
        self.0 = true;
    }
    fn visit_expr_closure(&mut self, _: &'a syn::ExprClosure) {}
}

impl Norm {
    pub fn new(from_fn: BTreeMap<usize, usize>) -> Self {
        Norm { rules: vec![], dropped: vec![], errors: vec![], nloops: 0, nrets: 0, hoisted: vec![], map_kind: None, tmp: 0, hint: String::new(), names: BTreeMap::new(), let_ctx: None, out_ty: None, result_collect: None, result_collect_done: false, collect_as_result: false, from_fn, from_fn_idx: 0, via: vec![], drain: vec![], want_after_tail: false, vunwrap: false, elems_field: None, extend_owned: false }
    }

    fn rule(&mut self, r: &str, sp: Span, note: &str) {
        self.rules.push(RuleApp { rule: r.into(), line: sp.start().line, note: note.into() });
    }

    /// Generated names are derived from the user's own binder (`hint`) so that they stay stable when
    /// unrelated code is added elsewhere in the function: `__i_pis_i`, `__hi_pis_i`, `__out_left_bits`, ...
    fn fresh(&mut self, base: &str) -> Ident {
        let hint = self.hint.clone();
        let stem = if hint.is_empty() { format!("__{base}") } else { format!("__{base}_{hint}") };
        let k = self.names.entry(stem.clone()).or_insert(0);
        let name = if *k == 0 { stem.clone() } else { format!("{stem}_{k}") };
        *k += 1;
        self.tmp += 1;
        id(&name)
    }

    pub fn run_fn(&mut self, sig: &mut syn::Signature, block: &mut Block, named_ret: bool) {
        REF_PARAMS.with(|r| {
            let mut r = r.borrow_mut();
            r.clear();
            for a in sig.inputs.iter() {
                if let syn::FnArg::Typed(t) = a {
                    if let (Pat::Ident(pi), syn::Type::Reference(tr)) = (&*t.pat, &*t.ty) {
                        if tr.mutability.is_none() { r.insert(pi.ident.to_string()); }
                    }
                }
            }
        });
        {
            let mut f = FoldShl(0);
            f.visit_block_mut(block);
            if f.0 > 0 { self.rules.push(RuleApp { rule: "N23".into(), line: 0, note: format!("{} literal shift(s) folded", f.0) }); }
        }
        {
            let mut rw = Rewriter { n: self };
            rw.visit_block_mut(block);
        }
        {
            let mut mk = Marker { n: self };
            mk.visit_block_mut(block);
        }
        // header + tail markers
        let hdr: Stmt = parse_quote!(__vx_hdr!(););
        let tail: Stmt = parse_quote!(__vx_tail!(););
        let has_tail_expr = matches!(block.stmts.last(), Some(Stmt::Expr(_, None)));
        if has_tail_expr {
            let last = block.stmts.pop().unwrap();
            block.stmts.push(tail);
            if self.want_after_tail {
                // side-car `//@after-tail`: the tail value is bound to `__ret` so ghost text can mention it (`let __ret = E; <ghost>; __ret`)
                if let Stmt::Expr(e, None) = last {
                    block.stmts.push(parse_quote!(let __ret = #e;));
                    block.stmts.push(parse_quote!(__vx_after_tail!();));
                    block.stmts.push(Stmt::Expr(parse_quote!(__ret), None));
                }
            } else {
            block.stmts.push(last);
            }
        } else {
            block.stmts.push(tail);
        }
        block.stmts.insert(0, hdr);
        if named_ret {
            if let syn::ReturnType::Type(_, ty) = &mut sig.output {
                let t = (**ty).clone();
                **ty = parse_quote!(__vx_ret!(#t));
            }
        }
        // N18: destructuring pattern in parameter position -> plain parameter + leading `let`
        let mut k = 0;
        let mut lets: Vec<Stmt> = vec![];
        for a in sig.inputs.iter_mut() {
            if let syn::FnArg::Typed(t) = a {
                if !matches!(&*t.pat, Pat::Ident(_)) {
                    let name = id(&format!("__param{k}"));
                    k += 1;
                    let p = (*t.pat).clone();
                    lets.push(parse_quote!(let #p = #name;));
                    *t.pat = parse_quote!(#name);
                    self.rules.push(RuleApp { rule: "N18".into(), line: 0, note: "destructuring parameter pattern -> parameter + let".into() });
                }
            }
        }
        for (i, l) in lets.into_iter().enumerate() {
            block.stmts.insert(1 + i, l); // after the header marker
        }
        // N29: `mut self` receiver (unsupported by Verus) -> plain `self` moved into a mutable local `__self` that the body uses
        // instead (a parameter's `mut` is a binding mode of the callee's local, not part of the signature)
        let mut_self = sig.inputs.iter().any(|a| matches!(a, syn::FnArg::Receiver(r) if r.reference.is_none() && r.mutability.is_some()));
        if mut_self {
            for a in sig.inputs.iter_mut() { if let syn::FnArg::Receiver(r) = a { r.mutability = None; } }
            struct Ren;
            impl VisitMut for Ren {
                fn visit_expr_path_mut(&mut self, p: &mut syn::ExprPath) { if p.path.is_ident("self") { p.path = parse_quote!(__self); } }
                fn visit_macro_mut(&mut self, _: &mut syn::Macro) {}
            }
            Ren.visit_block_mut(block);
            block.stmts.insert(1, parse_quote!(let mut __self = self;));
            self.rules.push(RuleApp { rule: "N29".into(), line: 0, note: "`mut self` receiver -> `self` moved into `let mut __self`".into() });
        }
        // strip attributes on params
        for a in sig.inputs.iter_mut() {
            match a {
                syn::FnArg::Typed(t) => t.attrs.clear(),
                syn::FnArg::Receiver(r) => r.attrs.clear(),
            }
        }
    }

    /// Bind `e` to a fresh local unless it is already a simple place expression.
    fn bind_simple(&mut self, e: Expr, base: &str, pre: &mut Vec<Stmt>) -> Expr {
        if is_simple(&e) {
            e
        } else {
            let v = self.fresh(base);
            pre.push(parse_quote!(let #v = #e;));
            parse_quote!(#v)
        }
    }

    /// Build the statements that iterate `it`, binding `pat` in each iteration and running `body`.
    /// Returns None if the adapter combination is outside the rule list.
    fn emit_loop(&mut self, it: &Iter, pat: &Pat, body: Vec<Stmt>, sp: Span) -> Option<Vec<Stmt>> {
        let saved = std::mem::replace(&mut self.hint, pat_hint(pat));
        let r = self.emit_loop_inner(it, pat, body, sp);
        self.hint = saved;
        r
    }

    fn emit_loop_inner(&mut self, it: &Iter, pat: &Pat, body: Vec<Stmt>, sp: Span) -> Option<Vec<Stmt>> {
        // N2f: `for x in <iter>.filter(|y| P) { B }` == `for x in <iter> { if P[y := &x] { B } }` (std: filter yields exactly the items P accepts, in order)
        if let Some(Adapter::Filter(c)) = it.adapters.last() {
            let c = c.clone();
            let mut inner = it.clone();
            inner.adapters.pop();
            let Pat::Ident(pi) = pat else { return None };
            let x = pi.ident.clone();
            let (cpat, cstmts, cval) = self.closure_parts(&c)?;
            self.rule("N2", sp, "for over <iter>.filter(p) -> loop over <iter> with the body guarded by p");
            let guarded: Stmt = parse_quote!(if { let #cpat = &#x; #(#cstmts)* #cval } { #(#body)* });
            return self.emit_loop_inner(&inner, pat, vec![guarded], sp);
        }
        let mut pre: Vec<Stmt> = vec![];
        let mut ads = it.adapters.clone();
        // N1: reversed range
        if let (Src::Range { lo, hi }, [Adapter::Rev]) = (&it.src, ads.as_slice()) {
            self.rule("N1", sp, "for x in (a..b).rev() -> counting-down while loop");
            let lo = self.bind_simple(lo.clone(), "lo", &mut pre);
            let hi = self.bind_simple(hi.clone(), "hi", &mut pre);
            let k = match pat {
                Pat::Ident(pi) => id(&format!("{}__down", pi.ident)),
                _ => self.fresh("down"),
            };
            pre.push(parse_quote!(let mut #k = #hi;));
            let w: Stmt = parse_quote!(while #k > #lo {
                #k = #k - 1;
                let #pat = #k;
                __vx_loop_body_here!();
                #(#body)*
            });
            pre.push(w);
            return Some(pre);
        }
        if let (Src::Range { lo, hi }, []) = (&it.src, ads.as_slice()) {
            if !has_continue(&body) { return None; } // plain range: native
            let lo = self.bind_simple(lo.clone(), "lo", &mut pre);
            let hi = self.bind_simple(hi.clone(), "hi", &mut pre);
            let nxt = match pat { Pat::Ident(pi) => id(&format!("{}__next", pi.ident)), _ => self.fresh("next") };
            pre.push(parse_quote!(let mut #nxt = #lo;));
            pre.push(parse_quote!(while #nxt < #hi {
                let #pat = #nxt;
                #nxt = #nxt + 1;
                __vx_loop_body_here!();
                #(#body)*
            }));
            self.rule("N1", sp, "range loop with `continue` -> counting while-loop (increment first)");
            return Some(pre);
        }
        // N2m: `for [(i,] v[)] in xs.iter_mut()[.enumerate()]`: `*v` stands for `xs[i]` (the only use the rule accepts)
        if let Src::IndexMut { base } = &it.src {
            if !is_simple(base) { return None; }
            // `.skip(n)`: the first min(n, len) elements are not visited (std Iterator::skip)
            let (enumerate, skip): (bool, Option<Expr>) = match it.adapters.as_slice() { [] => (false, None), [Adapter::Enumerate] => (true, None), [Adapter::Skip(n)] => (false, Some(n.clone())), _ => return None };
            let idx = self.fresh("i");
            let (ipat, vname): (Option<Pat>, Ident) = match (enumerate, pat) {
                (false, Pat::Ident(pi)) => (None, pi.ident.clone()),
                (true, Pat::Tuple(pt)) if pt.elems.len() == 2 => match &pt.elems[1] { Pat::Ident(pi) => (Some(pt.elems[0].clone()), pi.ident.clone()), _ => return None },
                _ => return None,
            };
            struct Sub { v: Ident, repl: Expr, bad: bool }
            impl VisitMut for Sub {
                fn visit_expr_mut(&mut self, e: &mut Expr) {
                    if let Expr::Unary(u) = e {
                        if matches!(u.op, syn::UnOp::Deref(_)) {
                            if let Expr::Path(p) = &*u.expr { if p.path.is_ident(&self.v) { *e = self.repl.clone(); return; } }
                        }
                    }
                    // `binder.field` is `(*binder).field` (auto-deref)
                    if let Expr::Field(f) = e {
                        if let Expr::Path(p) = &*f.base { if p.path.is_ident(&self.v) { *f.base = self.repl.clone(); return; } }
                    }
                    if let Expr::Path(p) = e { if p.path.is_ident(&self.v) { self.bad = true; } }
                    visit_mut::visit_expr_mut(self, e);
                }
            }
            // side-car `opt=elems:<field>`: the (model) container keeps its elements in that field
            let repl: Expr = match &self.elems_field { Some(fld) => { let fld = id(fld); parse_quote!(#base.#fld[#idx]) } None => parse_quote!(#base[#idx]) };
            let mut sub = Sub { v: vname, repl, bad: false };
            let mut body = body;
            for st in body.iter_mut() { sub.visit_stmt_mut(st); }
            if sub.bad { self.errors.push("iter_mut binder used other than as `*binder`".into()); return None; }
            self.rule("N2", sp, "for over iter_mut -> index loop, `*v` -> xs[i]");
            let bind: Vec<Stmt> = match ipat { Some(ip) => vec![parse_quote!(let #ip = #idx;)], None => vec![] };
            if self.elems_field.is_some() {
                // the container is mutated inside the loop: its length is read once, as the iterator does
                let hi = self.fresh("hi");
                pre.push(parse_quote!(let #hi = #base.len();));
                let lo: Expr = match &skip { Some(n) => { let l = self.fresh("lo"); pre.push(parse_quote!(let #l = if #n < #hi { #n } else { #hi };)); parse_quote!(#l) } None => parse_quote!(0) };
                pre.push(parse_quote!(for #idx in #lo..#hi {
                    #(#bind)*
                    __vx_loop_body_here!();
                    #(#body)*
                }));
                return Some(pre);
            }
            let lo: Expr = match &skip { Some(n) => { let l = self.fresh("lo"); pre.push(parse_quote!(let #l = if #n < #base.len() { #n } else { #base.len() };)); parse_quote!(#l) } None => parse_quote!(0) };
            pre.push(parse_quote!(for #idx in #lo..#base.len() {
                #(#bind)*
                __vx_loop_body_here!();
                #(#body)*
            }));
            return Some(pre);
        }
        // N2d: owned `v.into_iter()` / `for x in v` over non-Copy elements (side-car opt=drain:<binder>): elements are moved out
        // front to back, which is the order and ownership transfer of Vec's IntoIter
        if let (Src::Index { base, by_ref: false }, true, Pat::Ident(pi)) = (&it.src, it.adapters.is_empty(), pat) {
            if self.drain.iter().any(|d| pi.ident == d) {
                let v = self.fresh("src");
                let b = base.clone();
                pre.push(parse_quote!(let mut #v = #b;));
                pre.push(parse_quote!(while #v.len() > 0 {
                    let #pat = #v.remove(0);
                    __vx_loop_body_here!();
                    #(#body)*
                }));
                self.rule("N2", sp, "owned iteration over non-Copy elements -> `while v.len() > 0 { let x = v.remove(0); .. }` (front to back)");
                return Some(pre);
            }
        }
        // N2: indexable source with take / enumerate / zip / skip
        let (idx, lo, hi, elem, notes) = self.lower_iter(it, &mut pre)?;
        self.rule("N2", sp, &format!("for over slice iterator [{}] -> index loop", notes));
        let (pat, elem) = strip_ref_pat(pat, &elem);
        if has_continue(&body) {
            // Verus has no `continue` in for-loops: counting while-loop whose increment precedes the body
            let nxt = id(&format!("{}__next", idx));
            pre.push(parse_quote!(let mut #nxt = #lo;));
            pre.push(parse_quote!(while #nxt < #hi {
                let #idx = #nxt;
                #nxt = #nxt + 1;
                let #pat = #elem;
                __vx_loop_body_here!();
                #(#body)*
            }));
            self.rule("N2", sp, "loop body contains `continue`: counting while-loop (increment first)");
            return Some(pre);
        }
        let f: Stmt = parse_quote!(for #idx in #lo..#hi {
            let #pat = #elem;
            __vx_loop_body_here!();
            #(#body)*
        });
        pre.push(f);
        Some(pre)
    }

    /// Lower an indexable iterator (slice/Vec/array `.iter()`, `.into_iter()`, `&x`) with
    /// `skip/take/zip/enumerate` adapters to (index var, lo, hi, element expression).
    fn lower_iter(&mut self, it: &Iter, pre: &mut Vec<Stmt>) -> Option<(Ident, Expr, Expr, Expr, String)> {
        let mut ads = it.adapters.clone();
        if let Src::Chunks { base, size, exact } = &it.src {
            // `x[a..b].chunks(n)`: the sub-slice as a value first (N21)
            let base: Expr = match strip_paren(base) {
                Expr::Index(ix) if matches!(strip_paren(&ix.index), Expr::Range(_)) => {
                    let Expr::Range(rg) = strip_paren(&ix.index) else { unreachable!() };
                    if !matches!(rg.limits, syn::RangeLimits::HalfOpen(_)) { return None; }
                    let b = &ix.expr;
                    let lo: Expr = rg.start.as_ref().map(|b| (**b).clone()).unwrap_or_else(|| parse_quote!(0));
                    let hi: Expr = rg.end.as_ref().map(|b| (**b).clone()).unwrap_or_else(|| parse_quote!(#b.len()));
                    let rb = ref_of(b);
                    self.rules.push(RuleApp { rule: "N21".into(), line: 0, note: "x[a..b].chunks(n) -> chunks of vsub(&x, a, b)".into() });
                    parse_quote!(vsub(#rb, #lo, #hi))
                }
                _ => base.clone(),
            };
            let base = self.bind_simple(base, "src", pre);
            let size = self.bind_simple(size.clone(), "csz", pre);
            let idx = self.fresh("i");
            let cnt = self.fresh("nchunks");
            if *exact {
                pre.push(parse_quote!(let #cnt = #base.len() / #size;));
            } else {
                pre.push(parse_quote!(let #cnt = if #base.len() % #size == 0 { #base.len() / #size } else { #base.len() / #size + 1 };));
            }
            let rb = ref_of(&base);
            let mut elem: Expr = parse_quote!(vsub(#rb, #idx * #size, if #idx * #size + #size < #base.len() { #idx * #size + #size } else { #base.len() }));
            let mut notes = vec!["chunks"];
            let mut hi: Expr = parse_quote!(#cnt);
            while !ads.is_empty() {
                match ads.remove(0) {
                    Adapter::Enumerate => { elem = parse_quote!((#idx, #elem)); notes.push("enumerate"); }
                    Adapter::Take(n) => {
                        let n = self.bind_simple(n, "take", pre);
                        let h = self.fresh("hi");
                        pre.push(parse_quote!(let #h = if #n < #hi { #n } else { #hi };));
                        hi = parse_quote!(#h);
                        notes.push("take");
                    }
                    _ => return None,
                }
            }
            return Some((idx, parse_quote!(0), hi, elem, notes.join(",")));
        }
        let Src::Index { base, by_ref } = &it.src else { return None };
        // owned sources (for x in v / v.into_iter() / f(..)) are always moved into `__src_<hint>`, so the
        // side-car can name the iterated sequence whatever expression produced it
        let via_key = quote!(#base).to_string().replace(' ', "");
        let via_fn = self.via.iter().find(|(k, _)| *k == via_key).map(|(_, f)| id(f));
        let via_used = via_fn.is_some();
        let base = if let Some(f) = via_fn {
            // elements of a std set / map through the prelude model function (N2s)
            let rb = ref_of(base);
            let v = self.fresh("src");
            pre.push(parse_quote!(let #v = #f(#rb);));
            self.rules.push(RuleApp { rule: "N2".into(), line: 0, note: format!("iteration over the non-indexable collection `{via_key}` through the model function {f}() (every element once, order unspecified)") });
            parse_quote!(#v)
        } else if let (true, Expr::Index(ix)) = (*by_ref, strip_paren(base)) {
            // `x[a..b].iter()`: the sub-slice as a value (N21)
            if let Expr::Range(rg) = strip_paren(&ix.index) {
                if !matches!(rg.limits, syn::RangeLimits::HalfOpen(_)) { return None; }
                let b = &ix.expr;
                let lo: Expr = rg.start.as_ref().map(|b| (**b).clone()).unwrap_or_else(|| parse_quote!(0));
                let hi: Expr = rg.end.as_ref().map(|b| (**b).clone()).unwrap_or_else(|| parse_quote!(#b.len()));
                let rb = ref_of(b);
                let v = self.fresh("src");
                pre.push(parse_quote!(let #v = vsub(#rb, #lo, #hi);));
                self.rules.push(RuleApp { rule: "N21".into(), line: 0, note: "x[a..b].iter() -> vsub(&x, a, b) indexed".into() });
                parse_quote!(#v)
            } else { self.bind_simple(base.clone(), "src", pre) }
        } else if *by_ref { self.bind_simple(base.clone(), "src", pre) } else {
            let v = self.fresh("src");
            let b = base.clone();
            pre.push(parse_quote!(let #v = #b;));
            parse_quote!(#v)
        };
        let idx = self.fresh("i");
        let mut hi: Expr = parse_quote!(#base.len());
        let mut lo: Expr = parse_quote!(0);
        let mut lo_is_zero = true;
        let mut elem: Expr = if *by_ref { parse_quote!(&#base[#idx]) } else { parse_quote!(#base[#idx]) };
        let mut notes = vec![];
        // adapters are applied in source order; `lo` is the underlying index of the current iterator's first item
        while !ads.is_empty() {
            match ads.remove(0) {
                Adapter::Values => {
                    // N2s: `m.values()` — entries come from the model function as (key, &value); without one the construct is outside the subset
                    if !via_used { return None; }
                    elem = parse_quote!((#elem).1);
                    notes.push("values");
                }
                Adapter::Take(n) => {
                    let n = self.bind_simple(n, "take", pre);
                    let h = self.fresh("hi");
                    let lo_c = lo.clone();
                    pre.push(parse_quote!(let #h = if #n < #hi - #lo_c { #lo_c + #n } else { #hi };));
                    hi = parse_quote!(#h);
                    notes.push("take");
                }
                Adapter::Skip(k) => {
                    let k = self.bind_simple(k, "skip", pre);
                    let l = self.fresh("lo");
                    let lo_c = lo.clone();
                    pre.push(parse_quote!(let #l = if #k < #hi - #lo_c { #lo_c + #k } else { #hi };));
                    // items already wrapped by an earlier enumerate/zip keep their own numbering (they use idx - old lo)
                    lo = parse_quote!(#l);
                    lo_is_zero = false;
                    notes.push("skip");
                }
                Adapter::Zip(o) => {
                    if !o.adapters.is_empty() { return None; }
                    let Src::Index { base: ob, by_ref: obr } = &o.src else { return None };
                    let ob = self.bind_simple(ob.clone(), "zsrc", pre);
                    let h = self.fresh("hi");
                    let lo_c = lo.clone();
                    pre.push(parse_quote!(let #h = if #ob.len() < #hi - #lo_c { #lo_c + #ob.len() } else { #hi };));
                    hi = parse_quote!(#h);
                    let oi: Expr = if lo_is_zero { parse_quote!(#idx) } else { parse_quote!(#idx - #lo_c) };
                    let oe: Expr = if *obr { parse_quote!(&#ob[#oi]) } else { parse_quote!(#ob[#oi]) };
                    elem = parse_quote!((#elem, #oe));
                    notes.push("zip");
                }
                Adapter::Enumerate => {
                    let lo_c = lo.clone();
                    let ei: Expr = if lo_is_zero { parse_quote!(#idx) } else { parse_quote!(#idx - #lo_c) };
                    elem = parse_quote!((#ei, #elem));
                    notes.push("enumerate");
                }
                Adapter::Rev | Adapter::Map(_) | Adapter::FilterMap(_) | Adapter::Filter(_) | Adapter::Flatten => return None,
            }
        }
        Some((idx, lo, hi, elem, notes.join(",")))
    }

    /// N6: `<iter>.all(|p| E)` / `.any(|p| E)` / `.position(|p| E)` -> short-circuiting while loop.
    fn search_to_block(&mut self, it: &Iter, kind: &str, c: &syn::ExprClosure, sp: Span) -> Option<Expr> {
        let (pat, stmts, val) = self.closure_parts(c)?;
        let saved = std::mem::replace(&mut self.hint, pat_hint(&pat));
        let r = self.search_to_block_inner(it, kind, pat, stmts, val, sp);
        self.hint = saved;
        r
    }

    fn search_to_block_inner(&mut self, it: &Iter, kind: &str, pat: Pat, stmts: Vec<Stmt>, val: Expr, sp: Span) -> Option<Expr> {
        let mut pre: Vec<Stmt> = vec![];
        // `xs.iter().flatten().all/any(p)`: two nested short-circuiting index loops (inner items are arrays/slices)
        if let (Src::Index { base, by_ref: true }, [Adapter::Flatten]) = (&it.src, it.adapters.as_slice()) {
            if kind == "position" { return None; }
            let base = self.bind_simple(base.clone(), "src", &mut pre);
            let i = self.fresh("i");
            let j = self.fresh("j");
            let acc = self.fresh(kind);
            self.rule("N6", sp, &format!(".iter().flatten().{kind}(..) -> nested short-circuiting index loops"));
            let (init, cond, hit): (Expr, Expr, Stmt) = if kind == "all" {
                (parse_quote!(true), parse_quote!(#acc), parse_quote!(if !(#val) { #acc = false; }))
            } else {
                (parse_quote!(false), parse_quote!(!#acc), parse_quote!(if #val { #acc = true; }))
            };
            return Some(parse_quote!({
                #(#pre)*
                let mut #acc = #init;
                let mut #i = 0;
                while #cond && #i < #base.len() {
                    let mut #j = 0;
                    while #cond && #j < #base[#i].len() {
                        let #pat = &#base[#i][#j];
                        __vx_loop_body_here!();
                        #(#stmts)*
                        #hit
                        #j = #j + 1;
                    }
                    #i = #i + 1;
                }
                #acc
            }));
        }
        let (idx, lo, hi, elem, _notes) = match (&it.src, it.adapters.is_empty()) {
            (Src::Range { lo, hi }, true) => {
                let idx = self.fresh("i");
                let lo = self.bind_simple(lo.clone(), "lo", &mut pre);
                let hi = self.bind_simple(hi.clone(), "hi", &mut pre);
                let e: Expr = parse_quote!(#idx);
                (idx, lo, hi, e, String::new())
            }
            _ => self.lower_iter(it, &mut pre)?,
        };
        let acc = self.fresh(kind);
        self.rule("N6", sp, &format!(".{kind}(closure) -> short-circuiting index loop"));
        let (init, cond, hit): (Expr, Expr, Stmt) = match kind {
            "all" => (parse_quote!(true), parse_quote!(#acc), parse_quote!(if !(#val) { #acc = false; })),
            "any" => (parse_quote!(false), parse_quote!(!#acc), parse_quote!(if #val { #acc = true; })),
            "position" => (parse_quote!(None), parse_quote!(#acc.is_none()), parse_quote!(if #val { #acc = Some(#idx - #lo); })),
            _ => return None,
        };
        Some(parse_quote!({
            #(#pre)*
            let mut #acc = #init;
            let mut #idx = #lo;
            while #cond && #idx < #hi {
                let #pat = #elem;
                __vx_loop_body_here!();
                #(#stmts)*
                #hit
                #idx = #idx + 1;
            }
            #acc
        }))
    }

    fn closure_parts(&mut self, c: &syn::ExprClosure) -> Option<(Pat, Vec<Stmt>, Expr)> {
        if c.inputs.len() != 1 || c.capture.is_some() && false {
            return None;
        }
        let mut hr = HasReturn(false);
        hr.visit_expr(&c.body);
        // inside `.map(f).collect::<Result<Vec<_>,_>>()?` a `?` in f propagates the same Err the enclosing `?` would return (std: collect
        // stops at the first Err, which the outer `?` returns), so it may stay a function-level `?` once f is inlined; `return` may not
        struct OnlyReturn(bool);
        impl<'a> Visit<'a> for OnlyReturn {
            fn visit_expr_return(&mut self, _: &'a syn::ExprReturn) { self.0 = true; }
            fn visit_expr_closure(&mut self, _: &'a syn::ExprClosure) {}
        }
        let mut orr = OnlyReturn(false);
        orr.visit_expr(&c.body);
        if hr.0 && !(self.collect_as_result && !orr.0) {
            self.errors.push("closure with return/? cannot be inlined".into());
            return None;
        }
        if hr.0 { self.rules.push(RuleApp { rule: "N5".into(), line: c.span().start().line, note: "`?` inside the mapped closure of collect::<Result<..>>()? kept as a function-level `?` (same Err propagates)".into() }); }
        let pat = c.inputs[0].clone();
        match &*c.body {
            Expr::Block(b) if b.label.is_none() => {
                let mut stmts = b.block.stmts.clone();
                match stmts.pop() {
                    Some(Stmt::Expr(e, None)) => Some((pat, stmts, e)),
                    Some(other) => {
                        stmts.push(other);
                        Some((pat, stmts, parse_quote!(())))
                    }
                    None => Some((pat, vec![], parse_quote!(()))),
                }
            }
            e => Some((pat, vec![], e.clone())),
        }
    }

    /// N4: `a.iter()[.copied()].chain(b.iter()).chain(once(x))...[.cloned()].collect()` -> extend_from_slice / push in order.
    fn chain_collect(&mut self, recv: &Expr, sp: Span) -> Option<Expr> {
        enum Seg { Slice(Expr), Once(Expr) }
        fn seg_of(e: &Expr) -> Option<Seg> {
            let e = strip_paren(e);
            if let Expr::Call(c) = e {
                if let Expr::Path(p) = &*c.func {
                    if p.path.segments.last().map(|s| s.ident == "once").unwrap_or(false) && c.args.len() == 1 {
                        return Some(Seg::Once(c.args[0].clone()));
                    }
                }
            }
            let it = parse_iter(e, false)?;
            match (&it.src, it.adapters.is_empty()) {
                (Src::Index { base, .. }, true) if is_simple(base) => Some(Seg::Slice(base.clone())),
                _ => None,
            }
        }
        fn walk(e: &Expr, out: &mut Vec<Seg>) -> Option<()> {
            let e = strip_paren(e);
            if let Expr::MethodCall(m) = e {
                if m.method == "chain" && m.args.len() == 1 {
                    walk(&m.receiver, out)?;
                    out.push(seg_of(&m.args[0])?);
                    return Some(());
                }
            }
            out.push(seg_of(e)?);
            Some(())
        }
        let mut e = strip_paren(recv);
        let mut cloned = false;
        if let Expr::MethodCall(m) = e {
            if (m.method == "cloned" || m.method == "copied") && m.args.is_empty() {
                if let Expr::MethodCall(inner) = strip_paren(&m.receiver) {
                    if inner.method == "chain" {
                        cloned = true;
                        e = strip_paren(&m.receiver);
                    }
                }
            }
        }
        match e {
            Expr::MethodCall(m) if m.method == "chain" => {}
            _ => return None,
        }
        let mut segs = vec![];
        walk(e, &mut segs)?;
        let out = self.fresh("out");
        let mut stmts: Vec<Stmt> = vec![];
        for s in segs {
            match s {
                Seg::Slice(b) => stmts.push(parse_quote!(#out.extend_from_slice(&#b);)),
                Seg::Once(x) => {
                    if cloned {
                        match strip_paren(&x) {
                            Expr::Reference(r) if r.mutability.is_none() => { let inner = &r.expr; stmts.push(parse_quote!(#out.push(#inner.clone());)); }
                            other => stmts.push(parse_quote!(#out.push((#other).clone());)),
                        }
                    } else {
                        stmts.push(parse_quote!(#out.push(#x);));
                    }
                }
            }
        }
        self.rule("N4", sp, "iterator chain(..).collect() -> extend_from_slice / push in order");
        let decl: Stmt = match self.out_ty.take() {
            Some(ty) => parse_quote!(let mut #out: #ty = Vec::new();),
            None => parse_quote!(let mut #out = Vec::new();),
        };
        Some(parse_quote!({
            #decl
            #(#stmts)*
            #out
        }))
    }

    /// N5: `<iter>[.map(|p| E)].collect()` -> block expression with a push loop.
    fn collect_to_block(&mut self, it: &Iter, sp: Span) -> Option<Expr> {
        let saved = self.hint.clone();
        if self.hint.is_empty() {
            if let Some(Adapter::Map(c)) = it.adapters.last() {
                if c.inputs.len() == 1 { self.hint = pat_hint(&c.inputs[0]); }
            }
        }
        let r = self.collect_to_block_inner(it, sp);
        self.hint = saved;
        r
    }

    fn collect_to_block_inner(&mut self, it: &Iter, sp: Span) -> Option<Expr> {
        let mut it = it.clone();
        let mut is_filter_map = false;
        let map = match it.adapters.last() {
            Some(Adapter::Map(c)) => {
                let c = c.clone();
                it.adapters.pop();
                Some(c)
            }
            Some(Adapter::FilterMap(c)) => {
                let c = c.clone();
                it.adapters.pop();
                is_filter_map = true;
                Some(c)
            }
            _ => None,
        };
        if it.adapters.iter().any(|a| matches!(a, Adapter::Map(_) | Adapter::FilterMap(_))) {
            return None;
        }
        // the declared type of the `let` decides the container: Vec (push) or HashSet (insert)
        let into_set = match &self.out_ty { Some(syn::Type::Path(tp)) => tp.path.segments.last().map(|s| s.ident == "HashSet").unwrap_or(false), _ => false };
        let out = self.fresh("out");
        let (pat, mut body, val): (Pat, Vec<Stmt>, Expr) = match &map {
            Some(c) => self.closure_parts(c)?,
            None => {
                let x = self.fresh("x");
                (parse_quote!(#x), vec![], parse_quote!(#x))
            }
        };
        if self.collect_as_result {
            body.push(parse_quote!(match #val { Ok(__v) => { #out.push(__v); } Err(__e) => { return Err(__e); } }));
            self.result_collect_done = true;
            self.collect_as_result = false;
            self.rule("N5", sp, "collect::<Result<Vec<_>,_>>()? -> push loop returning the first Err (std definition)");
        } else if is_filter_map {
            // std: filter_map yields the payload of every `Some` the closure returns, in order
            if into_set { body.push(parse_quote!(match #val { Some(__v) => { #out.insert(__v); } None => {} })); }
            else { body.push(parse_quote!(match #val { Some(__v) => { #out.push(__v); } None => {} })); }
        } else if into_set {
            body.push(parse_quote!(#out.insert(#val);));
        } else {
            // an element expression that itself contains loops is evaluated into a local first (same evaluation order: the
            // argument is evaluated before the call either way), so the loops are statements of the body, not call arguments
            struct HasLoop(bool);
            impl<'x> Visit<'x> for HasLoop {
                fn visit_expr_for_loop(&mut self, _: &'x syn::ExprForLoop) { self.0 = true; }
                fn visit_expr_while(&mut self, _: &'x syn::ExprWhile) { self.0 = true; }
                fn visit_expr_loop(&mut self, _: &'x syn::ExprLoop) { self.0 = true; }
            }
            let mut hl = HasLoop(false);
            hl.visit_expr(&val);
            if hl.0 {
                let e = self.fresh("elem");
                body.push(parse_quote!(let #e = #val;));
                body.push(parse_quote!(#out.push(#e);));
            } else {
                body.push(parse_quote!(#out.push(#val);));
            }
        }
        let loop_stmts: Vec<Stmt> = match (&it.src, it.adapters.is_empty()) {
            (Src::Range { lo, hi }, true) => {
                let pat: Pat = if matches!(pat, Pat::Wild(_)) { let k = self.fresh("it"); parse_quote!(#k) } else { pat };
                vec![parse_quote!(for #pat in #lo..#hi { #(#body)* })]
            }
            _ => self.emit_loop(&it, &pat, body, sp)?,
        };
        self.rule("N5", sp, if is_filter_map { "iterator .filter_map(..).collect() -> loop pushing/inserting the Some payloads" } else { "iterator .map(..).collect() -> push loop" });
        let decl: Stmt = match (self.out_ty.take(), into_set) {
            (Some(ty), true) => parse_quote!(let mut #out: #ty = HashSet::new();),
            (Some(ty), false) => parse_quote!(let mut #out: #ty = Vec::new();),
            (None, _) => parse_quote!(let mut #out = Vec::new();),
        };
        Some(parse_quote!({
            #decl
            #(#loop_stmts)*
            #out
        }))
    }

    /// N5m: `<iter>[.map(f)].max()` -> Option accumulator loop (std definition, last maximal element wins)
    fn max_to_block(&mut self, it: &Iter, sp: Span) -> Option<Expr> {
        let mut it = it.clone();
        let map = match it.adapters.last() {
            Some(Adapter::Map(c)) => { let c = c.clone(); it.adapters.pop(); Some(c) }
            _ => None,
        };
        if it.adapters.iter().any(|a| matches!(a, Adapter::Map(_) | Adapter::FilterMap(_))) { return None; }
        let saved = self.hint.clone();
        if self.hint.is_empty() { if let Some(c) = &map { if c.inputs.len() == 1 { self.hint = pat_hint(&c.inputs[0]); } } }
        let acc = self.fresh("max");
        let (pat, mut body, val): (Pat, Vec<Stmt>, Expr) = match &map {
            Some(c) => match self.closure_parts(c) { Some(x) => x, None => { self.hint = saved; return None; } },
            None => { let x = self.fresh("x"); (parse_quote!(#x), vec![], parse_quote!(#x)) }
        };
        body.push(parse_quote!(let __m = #val;));
        body.push(parse_quote!(#acc = match #acc { None => Some(__m), Some(__a) => if __m >= __a { Some(__m) } else { Some(__a) } };));
        let loop_stmts = match self.emit_loop(&it, &pat, body, sp) { Some(v) => v, None => { self.hint = saved; return None; } };
        self.hint = saved;
        self.rule("N5", sp, "iterator .map(..).max() -> Option accumulator loop");
        Some(parse_quote!({
            let mut #acc = None;
            #(#loop_stmts)*
            #acc
        }))
    }

    /// N5f: `<iter>[.map(f)].fold(init, |acc, x| E)` and `<iter>[.map(f)].sum()` -> accumulator loop (std definitions; `sum` on
    /// primitive integers is repeated `+`, whose overflow is an obligation here)
    fn fold_to_block(&mut self, it: &Iter, init: Expr, fold: Option<&syn::ExprClosure>, sp: Span) -> Option<Expr> {
        let mut it = it.clone();
        let map = match it.adapters.last() {
            Some(Adapter::Map(c)) => { let c = c.clone(); it.adapters.pop(); Some(c) }
            _ => None,
        };
        if it.adapters.iter().any(|a| matches!(a, Adapter::Map(_))) { return None; }
        let saved = self.hint.clone();
        if self.hint.is_empty() { if let Some(c) = &map { if c.inputs.len() == 1 { self.hint = pat_hint(&c.inputs[0]); } } }
        let acc = self.fresh("acc");
        let (pat, mut body, val): (Pat, Vec<Stmt>, Expr) = match &map {
            Some(c) => match self.closure_parts(c) { Some(x) => x, None => { self.hint = saved; return None; } },
            None => { let x = self.fresh("x"); (parse_quote!(#x), vec![], parse_quote!(#x)) }
        };
        match fold {
            Some(f) => {
                if f.inputs.len() != 2 { self.hint = saved; return None; }
                let (a, x) = (&f.inputs[0], &f.inputs[1]);
                let fb = &f.body;
                body.push(parse_quote!(let #x = #val;));
                body.push(parse_quote!(#acc = { let #a = #acc; #fb };));
            }
            None => body.push(parse_quote!(#acc = #acc + #val;)),
        }
        let loop_stmts: Vec<Stmt> = match (&it.src, it.adapters.is_empty()) {
            (Src::Range { lo, hi }, true) => {
                let pat: Pat = if matches!(pat, Pat::Wild(_)) { let k = self.fresh("it"); parse_quote!(#k) } else { pat };
                vec![parse_quote!(for #pat in #lo..#hi { #(#body)* })]
            }
            _ => match self.emit_loop(&it, &pat, body, sp) { Some(v) => v, None => { self.hint = saved; return None; } },
        };
        self.hint = saved;
        self.rule("N5", sp, "iterator .map(..).fold(..)/.sum() -> accumulator loop");
        Some(parse_quote!({
            let mut #acc = #init;
            #(#loop_stmts)*
            #acc
        }))
    }
}

struct Rewriter<'a> {
    n: &'a mut Norm,
}

impl<'a> Rewriter<'a> {
    fn rewrite_macro_stmt(&mut self, m: &syn::Macro, sp: Span) -> Option<Vec<Stmt>> {
        let name = macro_name(m);
        match name.as_str() {
            "assert" | "assert_eq" | "assert_ne" => {
                let a = macro_args(m)?;
                let c: Expr = match name.as_str() {
                    "assert" => a.first()?.clone(),
                    "assert_eq" => {
                        let (x, y) = (a.first()?, a.get(1)?);
                        parse_quote!(#x == #y)
                    }
                    _ => {
                        let (x, y) = (a.first()?, a.get(1)?);
                        parse_quote!(#x != #y)
                    }
                };
                self.n.rule("N9", sp, &format!("{name}! -> vassert (must be proved unreachable-to-fail); message dropped"));
                Some(vec![parse_quote!(vassert(#c);)])
            }
            "debug_assert" | "debug_assert_eq" | "debug_assert_ne" | "println" | "eprintln" | "print" | "eprint" | "dbg" => {
                self.n.rule("N10", sp, &format!("{name}! dropped"));
                self.n.dropped.push(format!("{name}! at source line {}", sp.start().line));
                Some(vec![])
            }
            "unreachable" | "panic" | "todo" | "unimplemented" => {
                self.n.rule("N9", sp, &format!("{name}! -> vpanic() (requires false)"));
                Some(vec![parse_quote!(vpanic();)])
            }
            "bail" => {
                self.n.rule("N8", sp, "bail! -> return Err(verr()); message dropped");
                Some(vec![parse_quote!(return Err(verr());)])
            }
            "ensure" => {
                let a = macro_args(m)?;
                let c = a.first()?.clone();
                self.n.rule("N8", sp, "ensure! -> if !c { return Err(verr()) }; message dropped");
                Some(vec![parse_quote!(if !(#c) { return Err(verr()); })])
            }
            _ => None,
        }
    }

    fn rewrite_stmt(&mut self, mut s: Stmt) -> Vec<Stmt> {
        match cfg_value(&stmt_attrs(&s)) {
            Some(false) => {
                self.n.rule("N10", s.span(), "statement under a #[cfg] that is off in the verified configuration dropped");
                self.n.dropped.push(format!("cfg-disabled statement at source line {}", s.span().start().line));
                return vec![];
            }
            Some(true) => {
                match &mut s {
                    Stmt::Local(l) => l.attrs.clear(),
                    Stmt::Macro(m) => m.attrs.clear(),
                    Stmt::Expr(e, _) => clear_expr_attrs(e),
                    _ => {}
                }
            }
            None => {}
        }
        // N24: `let Ok(x) = e else { D };` -> `let x = match e { Ok(x) => x, _ => D };`
        if let Stmt::Local(l) = &s {
            if let Some(init) = &l.init {
                if let Some((_, div)) = &init.diverge {
                    let mut ids = PatIdents(vec![]);
                    ids.visit_pat(&l.pat);
                    let names: Vec<Ident> = ids.0.iter().map(|n| id(n)).collect();
                    let e = &init.expr;
                    let pat = &l.pat;
                    self.n.rule("N24", s.span(), "let-else -> match with diverging arm");
                    return if names.len() == 1 {
                        let x = &names[0];
                        vec![parse_quote!(let #x = match #e { #pat => #x, _ => #div };)]
                    } else {
                        vec![parse_quote!(let (#(#names),*) = match #e { #pat => (#(#names),*), _ => #div };)]
                    };
                }
            }
        }
        // N26: `while let PAT = E { B }` -> `loop { match E { PAT => { B } _ => break } }`
        if let Stmt::Expr(Expr::While(wl), _) = &s {
            if let Expr::Let(le) = strip_paren(&wl.cond) {
                if wl.label.is_none() {
                    let pat = &le.pat;
                    let e = &le.expr;
                    let body = &wl.body.stmts;
                    self.n.rule("N26", s.span(), "while-let -> loop { match .. { PAT => body, _ => break } }");
                    return vec![parse_quote!(loop { __vx_loop_body_here!(); match #e { #pat => { #(#body)* } _ => { break; } } })];
                }
            }
        }
        if let Stmt::Item(it @ (syn::Item::Struct(_) | syn::Item::Enum(_))) = &s {
            let mut it = it.clone();
            strip_item_attrs(&mut it);
            if let syn::Item::Struct(st) = &mut it {
                st.vis = syn::Visibility::Public(Default::default());
                for f in st.fields.iter_mut() { f.vis = syn::Visibility::Public(Default::default()); }
            }
            self.n.hoisted.push(it);
            self.n.rule("N12", s.span(), "function-local datatype hoisted to module level");
            return vec![];
        }
        if let Stmt::Item(syn::Item::Use(u)) = &s {
            // function-local imports of macro crates are dropped (their macros are rewritten by N8); others are kept
            let txt = quote::ToTokens::to_token_stream(&u.tree).to_string();
            if txt.starts_with("anyhow") {
                self.n.rule("N12", s.span(), "function-local `use anyhow::..` dropped (macros rewritten by N8)");
                return vec![];
            }
        }
        match &s {
            Stmt::Macro(sm) => {
                if let Some(v) = self.rewrite_macro_stmt(&sm.mac, sm.span()) {
                    return v;
                }
                vec![s]
            }
            Stmt::Expr(Expr::Macro(em), _) => {
                if let Some(v) = self.rewrite_macro_stmt(&em.mac, em.span()) {
                    return v;
                }
                vec![s]
            }
            Stmt::Expr(Expr::ForLoop(fl), _) => {
                if fl.label.is_some() {
                    return vec![s];
                }
                // N11: `for PAT in [e1, .., ek] { B }` (array literal) -> one block per element, in order
                if let Expr::Array(arr) = strip_paren(&fl.expr) {
                    struct Brk(bool);
                    impl<'x> Visit<'x> for Brk {
                        fn visit_expr_break(&mut self, _: &'x syn::ExprBreak) { self.0 = true; }
                        fn visit_expr_continue(&mut self, _: &'x syn::ExprContinue) { self.0 = true; }
                        fn visit_expr_for_loop(&mut self, _: &'x syn::ExprForLoop) {}
                        fn visit_expr_while(&mut self, _: &'x syn::ExprWhile) {}
                        fn visit_expr_loop(&mut self, _: &'x syn::ExprLoop) {}
                        fn visit_expr_closure(&mut self, _: &'x syn::ExprClosure) {}
                    }
                    let mut b = Brk(false);
                    b.visit_block(&fl.body);
                    if !b.0 {
                        let pat = &fl.pat;
                        let body = &fl.body.stmts;
                        let mut out: Vec<Stmt> = vec![];
                        for e in arr.elems.iter() {
                            out.push(Stmt::Expr(parse_quote!({ let #pat = #e; #(#body)* }), None));
                        }
                        self.n.rule("N11", fl.span(), &format!("for over array literal unrolled ({} elements)", arr.elems.len()));
                        return out;
                    }
                }
                // N20: `for _ in a..b` gets a named (unused) counter so that invariants can mention it
                if let (Pat::Wild(_), Some(Iter { src: Src::Range { .. }, adapters })) = (&*fl.pat, parse_iter(&fl.expr, true)) {
                    if adapters.is_empty() {
                        let saved = std::mem::replace(&mut self.n.hint, String::new());
                        let name = self.n.fresh("it");
                        self.n.hint = saved;
                        let mut fl2 = fl.clone();
                        *fl2.pat = parse_quote!(#name);
                        self.n.rule("N20", fl.span(), "for _ in range -> named unused counter");
                        return vec![Stmt::Expr(Expr::ForLoop(fl2), None)];
                    }
                }
                match parse_iter(&fl.expr, true) {
                    Some(it) => {
                        let body = fl.body.stmts.clone();
                        match self.n.emit_loop(&it, &fl.pat, body, fl.span()) {
                            Some(v) => v,
                            None => {
                                if matches!((&it.src, it.adapters.is_empty()), (Src::Range { .. }, true)) {
                                    vec![s]
                                } else {
                                    self.n.errors.push(format!("unsupported for-loop iterator at source line {}", fl.span().start().line));
                                    vec![s]
                                }
                            }
                        }
                    }
                    None => {
                        self.n.errors.push(format!("unsupported for-loop iterable at source line {}", fl.span().start().line));
                        vec![s]
                    }
                }
            }
            Stmt::Item(_) => vec![s],
            _ => vec![s],
        }
    }
}


struct CallInliner<'c> {
    name: String,
    clo: &'c syn::ExprClosure,
    count: usize,
    other_uses: usize,
    tmp: usize,
}
impl<'c> VisitMut for CallInliner<'c> {
    fn visit_expr_mut(&mut self, e: &mut Expr) {
        visit_mut::visit_expr_mut(self, e);
        if let Expr::Call(c) = e {
            if let Expr::Path(p) = &*c.func {
                if p.path.is_ident(&self.name) && c.args.len() == self.clo.inputs.len() {
                    // the path visit below counted this occurrence as an "other use": undo
                    self.other_uses -= 1;
                    let mut pre: Vec<Stmt> = vec![];
                    let mut binds: Vec<Stmt> = vec![];
                    for (k, (a, pat)) in c.args.iter().zip(self.clo.inputs.iter()).enumerate() {
                        let t = id(&format!("__arg{}_{}", self.tmp, k));
                        pre.push(parse_quote!(let #t = #a;));
                        binds.push(parse_quote!(let #pat = #t;));
                    }
                    self.tmp += 1;
                    let body = &self.clo.body;
                    let r: Expr = match &self.clo.output {
                        syn::ReturnType::Type(_, ty) => parse_quote!({ #(#pre)* #(#binds)* let __clo_ret: #ty = #body; __clo_ret }),
                        syn::ReturnType::Default => parse_quote!({ #(#pre)* #(#binds)* #body }),
                    };
                    *e = r;
                    self.count += 1;
                }
            }
        }
    }
    fn visit_expr_path_mut(&mut self, p: &mut syn::ExprPath) {
        if p.path.is_ident(&self.name) {
            self.other_uses += 1;
        }
    }
}

impl<'a> Rewriter<'a> {
    /// N17: `let f = |a, b| -> T { .. };` (non-move, immutable) whose only uses are direct calls is
    /// beta-reduced at each call site: arguments are evaluated once, in order, into temporaries.
    fn inline_let_closures(&mut self, b: &mut Block) {
        let mut i = 0;
        while i < b.stmts.len() {
            let found = match &b.stmts[i] {
                Stmt::Local(l) => match (&l.pat, &l.init) {
                    (Pat::Ident(pi), Some(init)) if pi.mutability.is_none() && pi.by_ref.is_none() => match strip_paren(&init.expr) {
                        Expr::Closure(c) if c.capture.is_none() && init.diverge.is_none() => Some((pi.ident.to_string(), c.clone(), l.span())),
                        _ => None,
                    },
                    _ => None,
                },
                _ => None,
            };
            let Some((name, clo, sp)) = found else { i += 1; continue; };
            let mut hr = HasReturn(false);
            hr.visit_expr(&clo.body);
            if hr.0 { i += 1; continue; }
            // free identifiers of the closure body must not be re-bound between definition and use
            let mut body_ids = IdentCollector(Default::default());
            body_ids.visit_expr(&clo.body);
            let mut rebound = false;
            for s in &b.stmts[i + 1..] {
                if let Stmt::Local(l) = s {
                    let mut pats = PatIdents(vec![]);
                    pats.visit_pat(&l.pat);
                    if pats.0.iter().any(|x| body_ids.0.contains(x)) { rebound = true; }
                }
            }
            if rebound {
                self.n.errors.push(format!("closure `{name}` at source line {}: a captured name is re-bound later in the block; not inlined", sp.start().line));
                i += 1;
                continue;
            }
            let mut inl = CallInliner { name: name.clone(), clo: &clo, count: 0, other_uses: 0, tmp: self.n.tmp };
            let mut rest: Vec<Stmt> = b.stmts[i + 1..].to_vec();
            for s in rest.iter_mut() { inl.visit_stmt_mut(s); }
            if inl.other_uses > 0 {
                // used as a value somewhere: leave everything untouched
                i += 1;
                continue;
            }
            self.n.tmp = inl.tmp;
            let cnt = inl.count;
            b.stmts.truncate(i);
            b.stmts.extend(rest);
            self.n.rule("N17", sp, &format!("let-bound closure `{name}` beta-reduced at {cnt} call site(s)"));
        }
    }
}

#[derive(Default)]
struct IdentCollector(std::collections::BTreeSet<String>);
impl<'x> Visit<'x> for IdentCollector {
    fn visit_expr_path(&mut self, p: &'x syn::ExprPath) {
        if let Some(i) = p.path.get_ident() { self.0.insert(i.to_string()); }
    }
}
struct PatIdents(Vec<String>);
impl<'x> Visit<'x> for PatIdents {
    fn visit_pat_ident(&mut self, i: &'x syn::PatIdent) { self.0.push(i.ident.to_string()); }
}


impl<'a> Rewriter<'a> {
    /// N16: `let x = m.entry(k).or_insert(v);` followed by uses of `*x` / `x.method()` in the same block:
    ///   the binding becomes `if !m.contains_key(&k) { m.insert(k, v); }`, reads `*x` become `*m.get(&k).unwrap()`,
    ///   writes `*x = e` become `m.insert(k, e)` (std documents or_insert as "insert v if vacant, then a reference to the value").
    fn rewrite_entry_bindings(&mut self, b: &mut Block) {
        let mut i = 0;
        while i < b.stmts.len() {
            let found = match &b.stmts[i] {
                Stmt::Local(l) => match (&l.pat, &l.init) {
                    (Pat::Ident(pi), Some(init)) if init.diverge.is_none() => match strip_paren(&init.expr) {
                        Expr::MethodCall(oi) if oi.method == "or_insert" && oi.args.len() == 1 => match strip_paren(&oi.receiver) {
                            Expr::MethodCall(en) if en.method == "entry" && en.args.len() == 1 && is_simple(&en.receiver) && is_simple(&en.args[0]) =>
                                Some((pi.ident.clone(), (*en.receiver).clone(), en.args[0].clone(), oi.args[0].clone(), l.span())),
                            _ => None,
                        },
                        _ => None,
                    },
                    _ => None,
                },
                _ => None,
            };
            let Some((x, m, k, v, sp)) = found else { i += 1; continue; };
            struct Sub { x: Ident, m: Expr, k: Expr, bad: bool }
            impl VisitMut for Sub {
                fn visit_expr_mut(&mut self, e: &mut Expr) {
                    let (m, k) = (self.m.clone(), self.k.clone());
                    // *x = rhs
                    if let Expr::Assign(a) = e {
                        if let Expr::Unary(u) = strip_paren(&a.left) {
                            if matches!(u.op, syn::UnOp::Deref(_)) {
                                if let Expr::Path(p) = strip_paren(&u.expr) {
                                    if p.path.is_ident(&self.x) {
                                        let mut rhs = (*a.right).clone();
                                        self.visit_expr_mut(&mut rhs);
                                        *e = parse_quote!({ #m.insert(#k, #rhs); });
                                        return;
                                    }
                                }
                            }
                        }
                    }
                    if let Expr::Unary(u) = e {
                        if matches!(u.op, syn::UnOp::Deref(_)) {
                            if let Expr::Path(p) = strip_paren(&u.expr) {
                                if p.path.is_ident(&self.x) { *e = parse_quote!((*#m.get(&#k).unwrap())); return; }
                            }
                        }
                    }
                    if let Expr::MethodCall(mc) = e {
                        if let Expr::Path(p) = strip_paren(&mc.receiver) {
                            if p.path.is_ident(&self.x) {
                                *mc.receiver = parse_quote!((*#m.get(&#k).unwrap()));
                                for a in mc.args.iter_mut() { self.visit_expr_mut(a); }
                                return;
                            }
                        }
                    }
                    if let Expr::Path(p) = e { if p.path.is_ident(&self.x) { self.bad = true; } }
                    visit_mut::visit_expr_mut(self, e);
                }
            }
            let mut sub = Sub { x: x.clone(), m: m.clone(), k: k.clone(), bad: false };
            let mut rest: Vec<Stmt> = b.stmts[i + 1..].to_vec();
            for st in rest.iter_mut() { sub.visit_stmt_mut(st); }
            if sub.bad {
                self.n.errors.push(format!("entry().or_insert() binding `{x}` at source line {} is used other than through `*{x}` / method calls", sp.start().line));
                i += 1;
                continue;
            }
            let ins: Stmt = parse_quote!(if !#m.contains_key(&#k) { #m.insert(#k, #v); });
            b.stmts.truncate(i);
            b.stmts.push(ins);
            b.stmts.extend(rest);
            self.n.rule("N16", sp, "let x = m.entry(k).or_insert(v) -> contains_key/insert; *x -> m.get(&k) / m.insert(k, ..)");
            i += 1;
        }
    }
}

impl<'a> VisitMut for Rewriter<'a> {
    fn visit_block_mut(&mut self, b: &mut Block) {
        self.inline_let_closures(b);
        self.rewrite_entry_bindings(b);
        let stmts = std::mem::take(&mut b.stmts);
        let mut out = Vec::new();
        for s in stmts {
            out.extend(self.rewrite_stmt(s));
        }
        b.stmts = out;
        for s in &mut b.stmts {
            self.visit_stmt_mut(s);
        }
    }

    fn visit_local_mut(&mut self, l: &mut syn::Local) {
        l.attrs.clear();
        let saved = std::mem::replace(&mut self.n.hint, pat_hint(&l.pat));
        let saved_ctx = self.n.let_ctx.take();
        if let (Pat::Type(pt), Some(init)) = (&l.pat, &l.init) {
            self.n.let_ctx = Some((span_key(init.expr.span()), (*pt.ty).clone()));
        }
        visit_mut::visit_local_mut(self, l);
        self.n.let_ctx = saved_ctx;
        self.n.hint = saved;
    }

    fn visit_expr_mut(&mut self, e: &mut Expr) {
        // N5r: `<iter>.map(f).collect::<Result<Vec<_>, _>>()?` — std: the first Err stops the iteration and is returned
        let mut try_collect = false;
        if let Expr::Try(t) = e {
            if let Expr::MethodCall(m) = &*t.expr {
                if m.method == "collect" && m.args.is_empty() {
                    if let Some(tf) = &m.turbofish {
                        if let Some(syn::GenericArgument::Type(syn::Type::Path(tp))) = tf.args.first() {
                            if tp.path.segments.last().map(|s| s.ident == "Result").unwrap_or(false) {
                                self.n.result_collect = Some(span_key(m.span()));
                                self.n.result_collect_done = false;
                                try_collect = true;
                            }
                        }
                    }
                }
            }
        }
        // children first (closure bodies are normalised before they are inlined)
        visit_mut::visit_expr_mut(self, e);
        if try_collect {
            self.n.result_collect = None;
            if self.n.result_collect_done {
                self.n.result_collect_done = false;
                if let Expr::Try(t) = e { let inner = (*t.expr).clone(); *e = inner; }
                return;
            }
        }
        let sp = e.span();
        let mut replacement: Option<Expr> = None;
        match e {
            Expr::MethodCall(m) => {
                let name = m.method.to_string();
                match (name.as_str(), m.args.len()) {
                    ("collect", 0) => {
                        let as_result = self.n.result_collect == Some(span_key(sp));
                        self.n.collect_as_result = as_result;
                        self.n.out_ty = match &self.n.let_ctx {
                            Some((k, ty)) if *k == span_key(sp) => Some(ty.clone()),
                            _ => None,
                        };
                        if let Some(b) = self.n.chain_collect(&m.receiver, sp) {
                            replacement = Some(b);
                        } else if let Some(it) = parse_iter(&m.receiver, false) {
                            match self.n.collect_to_block(&it, sp) {
                                Some(b) => replacement = Some(b),
                                None => self.n.errors.push(format!("unsupported collect chain at source line {}", sp.start().line)),
                            }
                        } else {
                            self.n.errors.push(format!("unsupported collect chain at source line {}", sp.start().line));
                        }
                    }
                    ("extend", 1) => {
                        // N4: v.extend(xs.iter()[.copied()/.cloned()]) / v.extend(&xs) == v.extend_from_slice(&xs)
                        if let Some(it) = parse_iter(&m.args[0], true) {
                            if let (Src::Index { base, .. }, true) = (&it.src, it.adapters.is_empty()) {
                                if is_simple(base) {
                                    let r = &m.receiver;
                                    self.n.rule("N4", sp, ".extend(slice iterator) -> .extend_from_slice(&slice)");
                                    replacement = Some(parse_quote!(#r.extend_from_slice(&#base)));
                                }
                            }
                        }
                        if replacement.is_none() && self.n.extend_owned {
                            // N4d: an owned array / Vec value (by-value IntoIterator yields its elements in order)
                            let r = &m.receiver; let a = &m.args[0];
                            let a: Expr = match strip_paren(a) { Expr::Reference(rf) if rf.mutability.is_none() => (*rf.expr).clone(), o => o.clone() };
                            self.n.rule("N4", sp, ".extend(owned array / Vec expression) -> bind + .extend_from_slice(&tmp)");
                            replacement = Some(parse_quote!({ let __ext = #a; #r.extend_from_slice(&__ext) }));
                        }
                        if replacement.is_none() {
                            self.n.errors.push(format!("unsupported .extend() argument at source line {}", sp.start().line));
                        }
                    }
                    ("retain", 1) => {
                        // N7: std `Vec::retain(f)`: "removes all elements e for which f(&e) returns false ... visiting each element
                        // exactly once in the original order, and preserves the order of the retained elements" -> index scan that
                        // evaluates the (already normalised) closure body in place and `remove`s the element when it yields false.
                        // N7m: `BTreeMap/HashMap::retain(|k, v| ..)`: "retains only the elements specified by the predicate" -> scan
                        // over a snapshot of the keys (model method vkeys()), `get_mut` + closure body, `remove(&k)` when false.
                        if let Expr::Closure(c) = strip_paren(&m.args[0]) {
                            let recv = (*m.receiver).clone();
                            let mut hr = HasReturn(false);
                            hr.visit_expr(&c.body);
                            if hr.0 || !is_simple(&recv) {
                                self.n.errors.push(format!("unsupported .retain() (closure returns / receiver not a place) at source line {}", sp.start().line));
                            } else {
                                let (stmts, val): (Vec<Stmt>, Expr) = match &*c.body {
                                    Expr::Block(b) if b.label.is_none() => {
                                        let mut st = b.block.stmts.clone();
                                        match st.pop() { Some(Stmt::Expr(e, None)) => (st, e), Some(o) => { st.push(o); (st, parse_quote!(())) } None => (vec![], parse_quote!(())) }
                                    }
                                    e => (vec![], e.clone()),
                                };
                                if c.inputs.len() == 1 {
                                    let pat = c.inputs[0].clone();
                                    let saved = std::mem::replace(&mut self.n.hint, pat_hint(&pat));
                                    let i = self.n.fresh("i");
                                    let keep = self.n.fresh("keep");
                                    self.n.hint = saved;
                                    self.n.rule("N7", sp, "v.retain(closure) -> in-order index scan: closure body in place, v.remove(i) when it yields false (std definition)");
                                    replacement = Some(parse_quote!({
                                        let mut #i = 0;
                                        while #i < #recv.len() {
                                            __vx_loop_body_here!();
                                            let #keep = { let #pat = &#recv[#i]; #(#stmts)* #val };
                                            if #keep { #i += 1; } else { #recv.remove(#i); }
                                        }
                                    }));
                                } else if c.inputs.len() == 2 {
                                    let (kp, vp) = (c.inputs[0].clone(), c.inputs[1].clone());
                                    let saved = std::mem::replace(&mut self.n.hint, pat_hint(&vp));
                                    let ks = self.n.fresh("ks");
                                    let j = self.n.fresh("j");
                                    let k = self.n.fresh("k");
                                    let keep = self.n.fresh("keep");
                                    self.n.hint = saved;
                                    let kbind: Vec<Stmt> = if matches!(kp, Pat::Wild(_)) { vec![] } else { vec![parse_quote!(let #kp = &#k;)] };
                                    self.n.rule("N7", sp, "map.retain(|k, v| ..) -> scan over a snapshot of the keys: get_mut + closure body in place, map.remove(&k) when it yields false (std definition)");
                                    replacement = Some(parse_quote!({
                                        let #ks = #recv.vkeys();
                                        let mut #j = 0;
                                        while #j < #ks.len() {
                                            let #k = #ks[#j];
                                            __vx_loop_body_here!();
                                            let #keep = { #(#kbind)* let #vp = #recv.get_mut(&#k).unwrap(); #(#stmts)* #val };
                                            if !#keep { #recv.remove(&#k); }
                                            #j += 1;
                                        }
                                    }));
                                } else {
                                    self.n.errors.push(format!("unsupported .retain() closure arity at source line {}", sp.start().line));
                                }
                            }
                        } else {
                            self.n.errors.push(format!("unsupported .retain() argument at source line {}", sp.start().line));
                        }
                    }
                    ("count", 0) => {
                        // N22c: `s.chars().count()` -> vchar_count(s) (std: the number of `char`s of the str; model function of the unit's str prelude)
                        if let Expr::MethodCall(inner) = strip_paren(&m.receiver) {
                            if inner.method == "chars" && inner.args.is_empty() {
                                let r = &inner.receiver;
                                self.n.rule("N22", sp, "s.chars().count() -> vchar_count(s)");
                                replacement = Some(parse_quote!(vchar_count(&#r)));
                            }
                        }
                    }
                    ("or_default", 0) => {
                        // N16b: `m.entry(k).or_default()` -> `m.entry_or_default(k)` (one model method of the unit's map type: the value at
                        // k, inserting Default::default() first when absent — the std definition of the two calls together)
                        if let Expr::MethodCall(inner) = strip_paren(&m.receiver) {
                            if inner.method == "entry" && inner.args.len() == 1 {
                                let (r, k) = (&inner.receiver, &inner.args[0]);
                                self.n.rule("N16", sp, "m.entry(k).or_default() -> m.entry_or_default(k)");
                                replacement = Some(parse_quote!(#r.entry_or_default(#k)));
                            }
                        }
                    }
                    ("finish", 0) => {
                        // N13: `f.debug_struct(NAME).field(k1, v1)...field(kn, vn).finish()` -> the same writes as sequential calls on the formatter
                        // (core::fmt::DebugStruct is a builder that writes each field through to the Formatter it borrows, in call order)
                        let mut fields: Vec<(Expr, Expr)> = vec![];
                        let mut cur: &Expr = &m.receiver;
                        let mut root: Option<(Expr, Expr)> = None;
                        loop {
                            match strip_paren(cur) {
                                Expr::MethodCall(mc) if mc.method == "field" && mc.args.len() == 2 => { fields.push((mc.args[0].clone(), mc.args[1].clone())); cur = &mc.receiver; }
                                Expr::MethodCall(mc) if mc.method == "debug_struct" && mc.args.len() == 1 => { root = Some(((*mc.receiver).clone(), mc.args[0].clone())); break; }
                                _ => break,
                            }
                        }
                        if let Some((f, name)) = root {
                            fields.reverse();
                            let calls: Vec<Stmt> = fields.iter().map(|(k, v)| { let s: Stmt = parse_quote!(#f.vds_field(#k, #v);); s }).collect();
                            self.n.rule("N13", sp, "debug_struct(..).field(..)*.finish() -> sequential formatter calls in the same order");
                            replacement = Some(parse_quote!({ #f.vds_begin(#name); #(#calls)* #f.vds_finish() }));
                        }
                    }
                    ("add_many", 1) | ("mul_many", 1) => {
                        // N4c: library folds that take `impl IntoIterator<Item = Target>`: an argument that merely iterates a
                        // slice/array/Vec (`xs.iter()[.copied()/.cloned()]`, `&xs`, `xs`) is passed as that sequence (`xs.as_slice()`);
                        // the prelude stub takes the iterated sequence
                        if let Some(it) = parse_iter(&m.args[0], true) {
                            if let (Src::Index { base, .. }, true) = (&it.src, it.adapters.is_empty()) {
                                if is_simple(base) {
                                    let b = match strip_paren(base) { Expr::Reference(r) => (*r.expr).clone(), o => o.clone() };
                                    let r = &m.receiver; let meth = &m.method;
                                    self.n.rule("N4", sp, &format!(".{name}(slice iterator) -> .{name}(xs.as_slice())"));
                                    replacement = Some(parse_quote!(#r.#meth(#b.as_slice())));
                                }
                            }
                        }
                        if replacement.is_none() { self.n.errors.push(format!("unsupported .{name}() argument at source line {}", sp.start().line)); }
                    }
                    ("unwrap_or_default", 0) if self.n.vunwrap => {
                        // N8e: type-directed std method; the prelude trait VUnwrapOrDefault carries one trusted spec per payload type
                        self.n.rule("N8", sp, ".unwrap_or_default() -> .vunwrap_or_default() (prelude trait: payload, or the type's Default when None)");
                        let r = &m.receiver;
                        replacement = Some(parse_quote!(#r.vunwrap_or_default()));
                    }
                    ("max", 0) if parse_iter(&m.receiver, false).is_some() => {
                        // N5m: Iterator::max — None when empty; "if several elements are equally maximum, the last element is returned"
                        let it = parse_iter(&m.receiver, false).unwrap();
                        match self.n.max_to_block(&it, sp) {
                            Some(b) => replacement = Some(b),
                            None => self.n.errors.push(format!("unsupported .max() chain at source line {}", sp.start().line)),
                        }
                    }
                    ("fold", 2) => {
                        if let (Some(it), Expr::Closure(c)) = (parse_iter(&m.receiver, false), strip_paren(&m.args[1])) {
                            let init = m.args[0].clone();
                            match self.n.fold_to_block(&it, init, Some(c), sp) {
                                Some(b) => replacement = Some(b),
                                None => self.n.errors.push(format!("unsupported .fold() chain at source line {}", sp.start().line)),
                            }
                        }
                    }
                    ("sum", 0) => {
                        if let Some(it) = parse_iter(&m.receiver, false) {
                            match self.n.fold_to_block(&it, parse_quote!(0), None, sp) {
                                Some(b) => replacement = Some(b),
                                None => self.n.errors.push(format!("unsupported .sum() chain at source line {}", sp.start().line)),
                            }
                        }
                    }
                    ("all", 1) | ("any", 1) | ("position", 1) => {
                        let pred: Option<syn::ExprClosure> = match strip_paren(&m.args[0]) {
                            Expr::Closure(c) => Some(c.clone()),
                            Expr::Path(p) => Some(parse_quote!(|__x| #p(__x))),
                            _ => None,
                        };
                        if let (Some(it), Some(c)) = (parse_iter(&m.receiver, false), pred) {
                            match self.n.search_to_block(&it, &name, &c, sp) {
                                Some(b) => replacement = Some(b),
                                None => self.n.errors.push(format!("unsupported .{name}() chain at source line {}", sp.start().line)),
                            }
                        } else {
                            self.n.errors.push(format!("unsupported .{name}() receiver at source line {}", sp.start().line));
                        }
                    }
                    ("to_le_bytes", 0) => {
                        self.n.rule("N22", sp, "x.to_le_bytes() -> x.vto_le_bytes() (prelude trait, spec per integer type)");
                        let r = &m.receiver;
                        replacement = Some(parse_quote!(#r.vto_le_bytes()));
                    }
                    ("copy_from_slice", 1) => {
                        // N21: x[a..b].copy_from_slice(y) -> vcopy_into(&mut x, a, b, y)
                        if let Expr::Index(ix) = strip_paren(&m.receiver) {
                            if let Expr::Range(rg) = strip_paren(&ix.index) {
                                if matches!(rg.limits, syn::RangeLimits::HalfOpen(_)) {
                                    let base = &ix.expr;
                                    let lo: Expr = rg.start.as_ref().map(|b| (**b).clone()).unwrap_or_else(|| parse_quote!(0));
                                    let hi: Expr = rg.end.as_ref().map(|b| (**b).clone()).unwrap_or_else(|| parse_quote!(#base.len()));
                                    let y = &m.args[0];
                                    self.n.rule("N21", sp, "x[a..b].copy_from_slice(y) -> vcopy_into(&mut x, a, b, y)");
                                    replacement = Some(parse_quote!(vcopy_into(&mut #base, #lo, #hi, #y)));
                                }
                            }
                        }
                    }
                    ("sort", 0) => {
                        self.n.rule("N22", sp, "x.sort() -> x.vsort() (prelude trait: sorted permutation, spec per element type)");
                        let r = &m.receiver;
                        replacement = Some(parse_quote!(#r.vsort()));
                    }
                    ("try_into", 0) => {
                        // N19: type-directed std conversion; the prelude trait VTryInto carries one trusted spec per type pair
                        self.n.rule("N19", sp, ".try_into() -> .vtry_into() (prelude trait, spec per type pair)");
                        let r = &m.receiver;
                        replacement = Some(parse_quote!(#r.vtry_into()));
                    }
                    ("expect", 1) => {
                        self.n.rule("N9", sp, ".expect(msg) -> .unwrap(); message dropped");
                        let r = &m.receiver;
                        replacement = Some(parse_quote!(#r.unwrap()));
                    }
                    ("map_err", 1) => {
                        // N8b: x.map_err(|p| B) == match x { Ok(v) => Ok(v), Err(p) => Err(B) }
                        if let Expr::Closure(c) = strip_paren(&m.args[0]) {
                            if c.inputs.len() == 1 {
                                let pat = &c.inputs[0];
                                let body = &c.body;
                                let r = &m.receiver;
                                self.n.rule("N8", sp, ".map_err(closure) -> match (std definition)");
                                replacement = Some(parse_quote!(match #r { Ok(__v) => Ok(__v), Err(#pat) => Err(#body) }));
                            }
                        }
                        if replacement.is_none() {
                            // map_err(Type::from) and similar: Ok-ness preserved, error value dropped
                            self.n.rule("N8", sp, ".map_err(fn path) -> .vctx(); error value dropped");
                            let r = &m.receiver;
                            replacement = Some(parse_quote!(#r.vctx()));
                        }
                    }
                    ("map", 1) if parse_iter(&m.receiver, false).is_none() && self.n.map_kind.is_some() => {
                        // N8c: Result::map / Option::map (std definition); the kind comes from the side-car
                        let r = &m.receiver;
                        let app: Option<Expr> = match strip_paren(&m.args[0]) {
                            Expr::Path(p) => Some(parse_quote!(#p(__v))),
                            Expr::Closure(c) if c.inputs.len() == 1 => { let pat = &c.inputs[0]; let body = &c.body; Some(parse_quote!({ let #pat = __v; #body })) }
                            _ => None,
                        };
                        if let Some(app) = app {
                            self.n.rule("N8", sp, "Result/Option .map(f) -> match (std definition)");
                            replacement = Some(if self.n.map_kind.as_deref() == Some("result") {
                                parse_quote!(match #r { Ok(__v) => Ok(#app), Err(__e) => Err(__e) })
                            } else {
                                parse_quote!(match #r { Some(__v) => Some(#app), None => None })
                            });
                        }
                    }
                    ("and_then", 1) if parse_iter(&m.receiver, false).is_none() => {
                        // N8d: Result::and_then(closure) (std definition). Only used on Results here; on an Option the unit does not type-check
                        if let Expr::Closure(c) = strip_paren(&m.args[0]) {
                            if c.inputs.len() == 1 {
                                let pat = &c.inputs[0]; let body = &c.body; let r = &m.receiver;
                                self.n.rule("N8", sp, "Result .and_then(closure) -> match (std definition)");
                                replacement = Some(parse_quote!(match #r { Ok(__v) => { let #pat = __v; #body }, Err(__e) => Err(__e) }));
                            }
                        }
                    }
                    ("filter", 1) if parse_iter(&m.receiver, false).is_none() && self.n.map_kind.as_deref() == Some("option") => {
                        // N8f: Option::filter(p) (std definition): Some(v) if p(&v), otherwise None
                        if let Expr::Closure(c) = strip_paren(&m.args[0]) {
                            if c.inputs.len() == 1 {
                                let pat = &c.inputs[0]; let body = &c.body; let r = &m.receiver;
                                self.n.rule("N8", sp, "Option .filter(closure) -> match (std definition)");
                                replacement = Some(parse_quote!(match #r { Some(__v) => if { let #pat = &__v; #body } { Some(__v) } else { None }, None => None }));
                            }
                        }
                    }
                    ("unwrap_or_else", 1) if self.n.map_kind.as_deref() == Some("option") => {
                        // N8g: Option::unwrap_or_else(f) (std definition): the payload, or f() when None
                        if let Expr::Closure(c) = strip_paren(&m.args[0]) {
                            if c.inputs.is_empty() {
                                let body = &c.body; let r = &m.receiver;
                                self.n.rule("N8", sp, "Option .unwrap_or_else(closure) -> match (std definition)");
                                replacement = Some(parse_quote!(match #r { Some(__v) => __v, None => #body }));
                            }
                        }
                    }
                    ("ok_or_else", 1) => {
                        if let Expr::Closure(c) = strip_paren(&m.args[0]) {
                            if c.inputs.is_empty() {
                                let body = &c.body;
                                let r = &m.receiver;
                                self.n.rule("N8", sp, ".ok_or_else(closure) -> match (std definition)");
                                replacement = Some(parse_quote!(match #r { Some(__v) => Ok(__v), None => Err(#body) }));
                            }
                        }
                    }
                    ("context", 1) | ("with_context", 1) => {
                        self.n.rule("N8", sp, &format!(".{name}(..) -> .vctx(); message dropped"));
                        let r = &m.receiver;
                        replacement = Some(parse_quote!(#r.vctx()));
                    }
                    _ => {}
                }
            }
            Expr::Binary(b) if matches!(b.op, syn::BinOp::Eq(_) | syn::BinOp::Ne(_)) => {
                // N21c: `E1[a..b] == E2[c..d]` / `!=` (comparison of two range-indexed places, std slice PartialEq: same length and
                // element-wise equal) -> vslice_eq(vsub_any(&E1, a, b), vsub_any(&E2, c, d)); vsub_any goes through the unit's VAsSlice
                // view of the base (slice, array, Vec, or a type whose Deref target is one of them), vslice_eq is defined for primitive
                // element types only
                fn range_place(e: &Expr) -> Option<Expr> {
                    if let Expr::Index(ix) = strip_paren(e) {
                        if let Expr::Range(rg) = strip_paren(&ix.index) {
                            if matches!(rg.limits, syn::RangeLimits::HalfOpen(_)) {
                                let base = &ix.expr;
                                let rb = ref_of(base);
                                let lo: Expr = rg.start.as_ref().map(|b| (**b).clone()).unwrap_or_else(|| parse_quote!(0));
                                let hi: Expr = rg.end.as_ref().map(|b| (**b).clone()).unwrap_or_else(|| parse_quote!(vlen_any(#rb)));
                                return Some(parse_quote!(vsub_any(#rb, #lo, #hi)));
                            }
                        }
                    }
                    None
                }
                if let (Some(l), Some(r)) = (range_place(&b.left), range_place(&b.right)) {
                    self.n.rule("N21", sp, "x[a..b] == y[c..d] -> vslice_eq(vsub_any(&x, a, b), vsub_any(&y, c, d))");
                    replacement = Some(if matches!(b.op, syn::BinOp::Eq(_)) { parse_quote!(vslice_eq(#l, #r)) } else { parse_quote!(!vslice_eq(#l, #r)) });
                }
            }
            Expr::Reference(rf) if rf.mutability.is_none() => {
                // N21: `&E[a..b]` -> vsub(&E, a, b)  (std slice indexing by a half-open range)
                if let Expr::Index(ix) = strip_paren(&rf.expr) {
                    if let Expr::Range(rg) = strip_paren(&ix.index) {
                        if matches!(rg.limits, syn::RangeLimits::HalfOpen(_)) {
                            let base = &ix.expr;
                            let lo: Expr = rg.start.as_ref().map(|b| (**b).clone()).unwrap_or_else(|| parse_quote!(0));
                            let hi: Expr = rg.end.as_ref().map(|b| (**b).clone()).unwrap_or_else(|| parse_quote!(#base.len()));
                            self.n.rule("N21", sp, "&x[a..b] -> vsub(&x, a, b)");
                            let rb = ref_of(base);
                            replacement = Some(parse_quote!(vsub(#rb, #lo, #hi)));
                        }
                    }
                }
            }
            Expr::Call(c) => {
                // N22: `String::from(e)` -> vstring_from(e) (std From<&str> for String: same characters)
                if let Expr::Path(p) = &*c.func {
                    if p.path.segments.len() == 2 && p.path.segments[0].ident == "String" && p.path.segments[1].ident == "from" && c.args.len() == 1 {
                        let a = &c.args[0];
                        self.n.rule("N22", sp, "String::from(e) -> vstring_from(e)");
                        replacement = Some(parse_quote!(vstring_from(#a)));
                    }
                }
                // N22d: `String::from_utf8(e)` -> vstring_from_utf8(e) (std: Ok(the string) for valid UTF-8, Err otherwise; its error type has no Verus view)
                if let Expr::Path(p) = &*c.func {
                    if p.path.segments.len() == 2 && p.path.segments[0].ident == "String" && p.path.segments[1].ident == "from_utf8" && c.args.len() == 1 {
                        let a = &c.args[0];
                        self.n.rule("N22", sp, "String::from_utf8(e) -> vstring_from_utf8(e)");
                        replacement = Some(parse_quote!(vstring_from_utf8(#a)));
                    }
                }
                // N22: `u64::from_le_bytes(e)` -> vu64_from_le_bytes(e) (std signature uses a const expression Verus cannot name)
                if let Expr::Path(p) = &*c.func {
                    if p.path.segments.len() == 2 && p.path.segments[0].ident == "u64" && p.path.segments[1].ident == "from_le_bytes" && c.args.len() == 1 {
                        let a = &c.args[0];
                        self.n.rule("N22", sp, "u64::from_le_bytes(e) -> vu64_from_le_bytes(e)");
                        replacement = Some(parse_quote!(vu64_from_le_bytes(#a)));
                    }
                }
                // N19b: `u32::try_from(e)` / `usize::try_from(e)` ... -> VTryInto::<T>::vtry_into(e)
                if let Expr::Path(p) = &*c.func {
                    if p.path.segments.len() == 2 && p.path.segments[1].ident == "try_from" && c.args.len() == 1 {
                        let t = p.path.segments[0].ident.to_string();
                        if matches!(t.as_str(), "u8" | "u16" | "u32" | "u64" | "u128" | "usize" | "i32" | "i64") {
                            let ty = &p.path.segments[0].ident;
                            let a = &c.args[0];
                            self.n.rule("N19", sp, "T::try_from(e) -> VTryInto::<T>::vtry_into(e)");
                            replacement = Some(parse_quote!(VTryInto::<#ty>::vtry_into(#a)));
                        }
                    }
                }
                // N3: core::array::from_fn(|j| E)
                if let Expr::Path(p) = &*c.func {
                    let segs: Vec<String> = p.path.segments.iter().map(|s| s.ident.to_string()).collect();
                    let is_from_fn = segs.last().map(|s| s == "from_fn").unwrap_or(false)
                        && (segs.len() == 1 || segs[segs.len() - 2] == "array");
                    if is_from_fn && c.args.len() == 1 {
                        if let Expr::Closure(cl) = strip_paren(&c.args[0]) {
                            let k = self.n.from_fn_idx;
                            self.n.from_fn_idx += 1;
                            match self.n.from_fn.get(&k).copied() {
                                None => self.n.errors.push(format!("array::from_fn #{k} at source line {} needs a size in the side-car (//@from_fn {k} N)", sp.start().line)),
                                Some(nn) => {
                                    if let Some((pat, stmts, val)) = self.n.closure_parts(cl) {
                                        let mut elems: Vec<Expr> = vec![];
                                        for j in 0..nn {
                                            let lit = syn::LitInt::new(&format!("{j}usize"), Span::call_site());
                                            elems.push(parse_quote!({ let #pat = #lit; #(#stmts)* #val }));
                                        }
                                        self.n.rule("N3", sp, &format!("array::from_fn unrolled to {nn} elements"));
                                        replacement = Some(parse_quote!([#(#elems),*]));
                                    }
                                }
                            }
                        }
                    }
                }
            }
            Expr::Macro(em) => {
                let name = macro_name(&em.mac);
                match name.as_str() {
                    "anyhow" => {
                        self.n.rule("N8", sp, "anyhow!(..) -> verr(); message dropped");
                        replacement = Some(parse_quote!(verr()));
                    }
                    "format" => {
                        self.n.rule("N8", sp, "format!(..) -> vstring(); text dropped");
                        replacement = Some(parse_quote!(vstring()));
                    }
                    "bail" => {
                        self.n.rule("N8", sp, "bail! -> return Err(verr()); message dropped");
                        replacement = Some(parse_quote!(return Err(verr())));
                    }
                    "unreachable" | "panic" | "todo" | "unimplemented" => {
                        self.n.rule("N9", sp, &format!("{name}! -> vpanic() (requires false)"));
                        replacement = Some(parse_quote!(vpanic()));
                    }
                    "vec" => {
                        // N32: `vec![e; n]` -> vrepeat(e, n) (std: `e` is evaluated ONCE and cloned n times; model for Copy elements)
                        struct Rep { e: Expr, n: Expr }
                        impl syn::parse::Parse for Rep {
                            fn parse(i: syn::parse::ParseStream) -> syn::Result<Self> {
                                let e: Expr = i.parse()?; let _: syn::Token![;] = i.parse()?; let n: Expr = i.parse()?;
                                if !i.is_empty() { return Err(i.error("trailing tokens")); }
                                Ok(Rep { e, n })
                            }
                        }
                        if let Ok(r) = em.mac.parse_body::<Rep>() {
                            let (mut ex, mut nx) = (r.e, r.n);
                            self.visit_expr_mut(&mut ex); self.visit_expr_mut(&mut nx);
                            self.n.rule("N32", sp, "vec![e; n] -> vrepeat(e, n) (e evaluated once)");
                            replacement = Some(parse_quote!(vrepeat(#ex, #nx)));
                        }
                    }
                    _ => {}
                }
            }
            _ => {}
        }
        if let Some(r) = replacement {
            *e = r;
        }
    }
}

struct Marker<'a> {
    n: &'a mut Norm,
}

fn is_marker(s: &Stmt, name: &str) -> bool {
    if let Stmt::Macro(m) = s {
        return macro_name(&m.mac) == name;
    }
    false
}

impl<'a> Marker<'a> {
    fn mark_loop_body(&mut self, body: &mut Block) -> usize {
        let k = self.n.nloops;
        self.n.nloops += 1;
        let lit = syn::LitInt::new(&k.to_string(), Span::call_site());
        let m0: Stmt = parse_quote!(__vx_loop!(#lit););
        let mb: Stmt = parse_quote!(__vx_loop_body!(#lit););
        let me: Stmt = parse_quote!(__vx_loop_end!(#lit););
        // existing body placeholder from the rewriter?
        if let Some(pos) = body.stmts.iter().position(|s| is_marker(s, "__vx_loop_body_here")) {
            body.stmts[pos] = mb;
            body.stmts.insert(0, m0);
        } else {
            body.stmts.insert(0, mb);
            body.stmts.insert(0, m0);
        }
        body.stmts.push(me);
        k
    }
}

impl<'a> VisitMut for Marker<'a> {
    fn visit_block_mut(&mut self, b: &mut Block) {
        let stmts = std::mem::take(&mut b.stmts);
        let mut out = Vec::new();
        for mut s in stmts {
            let mut after: Option<usize> = None;
            let mut before_ret: Option<usize> = None;
            match &mut s {
                Stmt::Expr(Expr::ForLoop(l), _) => {
                    let k = self.mark_loop_body(&mut l.body);
                    self.visit_expr_mut(&mut l.expr);
                    self.visit_block_mut(&mut l.body);
                    after = Some(k);
                }
                Stmt::Expr(Expr::While(l), _) => {
                    let k = self.mark_loop_body(&mut l.body);
                    self.visit_expr_mut(&mut l.cond);
                    self.visit_block_mut(&mut l.body);
                    after = Some(k);
                }
                Stmt::Expr(Expr::Loop(l), _) => {
                    let k = self.mark_loop_body(&mut l.body);
                    self.visit_block_mut(&mut l.body);
                    after = Some(k);
                }
                Stmt::Expr(Expr::Return(r), _) => {
                    let k = self.n.nrets;
                    self.n.nrets += 1;
                    before_ret = Some(k);
                    if let Some(e) = &mut r.expr {
                        self.visit_expr_mut(e);
                    }
                }
                _ => self.visit_stmt_mut(&mut s),
            }
            if let Some(k) = before_ret {
                let lit = syn::LitInt::new(&k.to_string(), Span::call_site());
                out.push(parse_quote!(__vx_before_ret!(#lit);));
            }
            out.push(s);
            if let Some(k) = after {
                let lit = syn::LitInt::new(&k.to_string(), Span::call_site());
                // a loop in tail position has type (); adding a statement after it keeps that
                if let Some(Stmt::Expr(_, semi)) = out.last_mut() {
                    if semi.is_none() {
                        // leave as is: `for`/`while` need no semicolon as statements
                    }
                }
                out.push(parse_quote!(__vx_after_loop!(#lit);));
            }
        }
        b.stmts = out;
    }

    fn visit_expr_mut(&mut self, e: &mut Expr) {
        match e {
            Expr::ForLoop(l) => {
                self.mark_loop_body(&mut l.body);
                self.visit_expr_mut(&mut l.expr);
                self.visit_block_mut(&mut l.body);
            }
            Expr::While(l) => {
                self.mark_loop_body(&mut l.body);
                self.visit_expr_mut(&mut l.cond);
                self.visit_block_mut(&mut l.body);
            }
            Expr::Loop(l) => {
                self.mark_loop_body(&mut l.body);
                self.visit_block_mut(&mut l.body);
            }
            Expr::Return(r) => {
                let k = self.n.nrets;
                self.n.nrets += 1;
                if let Some(x) = &mut r.expr {
                    self.visit_expr_mut(x);
                }
                let lit = syn::LitInt::new(&k.to_string(), Span::call_site());
                let inner = e.clone();
                *e = parse_quote!({ __vx_before_ret!(#lit); #inner });
            }
            Expr::Closure(_) => {
                // closures that survive normalisation are left untouched (no anchors inside)
            }
            _ => visit_mut::visit_expr_mut(self, e),
        }
    }
}

#[allow(dead_code)]
fn _q() {
    let _ = quote!(a);
}

/// N14: effect threading. Calls to the designated effectful externals become method calls on an explicit world
/// parameter `w: &mut World` that is added to the signature; nothing is removed except parameters that only injected
/// such an effect (e.g. a `rename` closure).
pub fn thread_effects(sig: &mut syn::Signature, block: &mut Block, w: &str, ty: &str, effects: &[(String, String, String)], n: &mut Norm) {
    let wid = id(w);
    struct Eff<'e> { w: Ident, effects: &'e [(String, String, String)], count: usize }
    impl<'e> VisitMut for Eff<'e> {
        fn visit_expr_mut(&mut self, e: &mut Expr) {
            visit_mut::visit_expr_mut(self, e);
            let w = &self.w;
            let mut repl: Option<Expr> = None;
            match e {
                Expr::Call(c) => {
                    if let Expr::Path(p) = &*c.func {
                        let path = p.path.segments.iter().map(|s| s.ident.to_string()).collect::<Vec<_>>().join("::");
                        for (k, pat, m) in self.effects {
                            if k == "call" && *pat == path {
                                let m = id(m);
                                let args = &c.args;
                                repl = Some(parse_quote!(#w.#m(#args)));
                            }
                            // `pass`: the callee is itself effect-threaded in this unit — it receives the world as its last
                            // argument; an optional index names an injected-effect argument (a closure) that is dropped
                            if k == "pass" && *pat == path {
                                let drop: Option<usize> = m.parse().ok();
                                let args: Vec<&Expr> = c.args.iter().enumerate().filter(|(i, _)| Some(*i) != drop).map(|(_, a)| a).collect();
                                let f = &c.func;
                                repl = Some(parse_quote!(#f(#(#args,)* #w)));
                            }
                        }
                    }
                }
                Expr::MethodCall(mc) => {
                    for (k, pat, m) in self.effects {
                        if k == "method" && mc.method == pat.as_str() {
                            let m = id(m);
                            let r = &mc.receiver;
                            let args = &mc.args;
                            // a `&self` method auto-references its receiver: `x.m()` is `m(&x)` whether `x` is a value or already a reference
                            // (`&&T` coerces to `&T` at the argument), so the world method receives `&receiver`
                            repl = Some(if args.is_empty() { parse_quote!(#w.#m(&#r)) } else { parse_quote!(#w.#m(&#r, #args)) });
                        }
                        // `methodref`: the receiver is a place (e.g. `self.verifier`), passed to the world by shared reference
                        if k == "methodref" && mc.method == pat.as_str() {
                            let m = id(m);
                            let r = &mc.receiver;
                            let args = &mc.args;
                            repl = Some(if args.is_empty() { parse_quote!(#w.#m(&#r)) } else { parse_quote!(#w.#m(&#r, #args)) });
                        }
                    }
                }
                _ => {}
            }
            if let Some(r) = repl { *e = r; self.count += 1; }
        }
    }
    let mut eff = Eff { w: wid.clone(), effects, count: 0 };
    eff.visit_block_mut(block);
    // drop injected-effect parameters
    let drops: Vec<&String> = effects.iter().filter(|(k, _, _)| k == "drop-param").map(|(_, p, _)| p).collect();
    let kept: Vec<syn::FnArg> = sig.inputs.iter().filter(|a| match a {
        syn::FnArg::Typed(t) => match &*t.pat { Pat::Ident(pi) => !drops.iter().any(|d| pi.ident == d.as_str()), _ => true },
        _ => true,
    }).cloned().collect();
    sig.inputs = kept.into_iter().collect();
    let ty: syn::Type = syn::parse_str(ty).expect("effect-param type");
    sig.inputs.push(parse_quote!(#wid: &mut #ty));
    n.rules.push(RuleApp { rule: "N14".into(), line: 0, note: format!("{} effectful call(s) threaded through `{w}: &mut World`; dropped params: {:?}", eff.count, drops) });
}
