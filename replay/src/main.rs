//! vreplay — runs inputs against the REAL /repo code (built with `--features verif-hooks`).
//!   vreplay pb-wrapper <file.json>   {"n":N,"leaves":[[21 u64]..],"preimages":[[4 u64]..]} -> wrapper-only private-batch circuit
//!   vreplay pub-wrapper <file.json>  {"m":M,"n":N,"inners":[[21N+8 u64]..],"address":[4 u64]}
//! Output: one JSON line {"accepted":bool,"public_inputs":[..],"error":..}
use plonky2::field::types::{Field, PrimeField64};
use plonky2::iop::witness::{PartialWitness, WitnessWrite};
use plonky2::plonk::circuit_builder::CircuitBuilder;
use qp_wormhole_aggregator::private_batch::circuit::circuit_logic::{verif_build_private_batch_constraints, PrivateBatchCircuitTargets};
use qp_wormhole_aggregator::public_batch::circuit::circuit_logic::{verif_build_public_batch_constraints, PublicBatchCircuitTargets};
use serde_json::{json, Value};
use zk_circuits_common::circuit::{wormhole_private_batch_circuit_config, C, D, F};

fn u64s(v: &Value) -> Vec<u64> { v.as_array().unwrap().iter().map(|x| x.as_u64().unwrap()).collect() }

fn pb_wrapper(spec: &Value) -> Value {
    let n = spec["n"].as_u64().unwrap() as usize;
    let leaves: Vec<Vec<u64>> = spec["leaves"].as_array().unwrap().iter().map(u64s).collect();
    let pre: Vec<Vec<u64>> = spec["preimages"].as_array().unwrap().iter().map(u64s).collect();
    let (fake, _) = test_helpers::fake_leaf::build_fake_leaf_circuit();
    let mut builder = CircuitBuilder::<F, D>::new(wormhole_private_batch_circuit_config());
    let mut leaf_proofs = vec![];
    let mut pres = vec![];
    for _ in 0..n {
        leaf_proofs.push(builder.add_virtual_proof_with_pis(&fake.common));
        pres.push([builder.add_virtual_target(), builder.add_virtual_target(), builder.add_virtual_target(), builder.add_virtual_target()]);
    }
    let targets = PrivateBatchCircuitTargets { leaf_proofs, dummy_nullifier_pre_images: pres };
    verif_build_private_batch_constraints(&mut builder, &targets, n);
    let data = builder.build::<C>();
    let mut pw = PartialWitness::new();
    for i in 0..n {
        for (t, v) in targets.leaf_proofs[i].public_inputs.iter().zip(leaves[i].iter()) {
            pw.set_target(*t, F::from_noncanonical_u64(*v)).unwrap();
        }
        for (t, v) in targets.dummy_nullifier_pre_images[i].iter().zip(pre[i].iter()) {
            pw.set_target(*t, F::from_noncanonical_u64(*v)).unwrap();
        }
    }
    let res = std::panic::catch_unwind(std::panic::AssertUnwindSafe(|| data.prove(pw)));
    match res {
        Ok(Ok(proof)) => {
            let pis: Vec<u64> = proof.public_inputs.iter().map(|f| f.to_canonical_u64()).collect();
            let ok = data.verify(proof).is_ok();
            json!({"accepted": ok, "public_inputs": pis})
        }
        Ok(Err(e)) => json!({"accepted": false, "error": format!("{e}")}),
        Err(_) => json!({"accepted": false, "error": "prover panicked (unsatisfiable witness)"}),
    }
}

fn pub_wrapper(spec: &Value) -> Value {
    let m = spec["m"].as_u64().unwrap() as usize;
    let n = spec["n"].as_u64().unwrap() as usize;
    let inners: Vec<Vec<u64>> = spec["inners"].as_array().unwrap().iter().map(u64s).collect();
    let addr = u64s(&spec["address"]);
    // a throw-away circuit with 21N+8 public inputs provides CommonCircuitData of the right shape
    let shape = {
        let mut b = CircuitBuilder::<F, D>::new(plonky2::plonk::circuit_data::CircuitConfig::standard_recursion_config());
        let ts = b.add_virtual_targets(21 * n + 8);
        b.register_public_inputs(&ts);
        b.build::<C>()
    };
    let mut builder = CircuitBuilder::<F, D>::new(wormhole_private_batch_circuit_config());
    let mut proofs = vec![];
    for _ in 0..m { proofs.push(builder.add_virtual_proof_with_pis(&shape.common)); }
    let a = builder.add_virtual_targets(4);
    let targets = PublicBatchCircuitTargets { private_batch_proofs: proofs, aggregator_address: [a[0], a[1], a[2], a[3]] };
    verif_build_public_batch_constraints(&mut builder, &targets, m, n);
    let data = builder.build::<C>();
    let mut pw = PartialWitness::new();
    for i in 0..m {
        for (t, v) in targets.private_batch_proofs[i].public_inputs.iter().zip(inners[i].iter()) {
            pw.set_target(*t, F::from_noncanonical_u64(*v)).unwrap();
        }
    }
    for (t, v) in targets.aggregator_address.iter().zip(addr.iter()) { pw.set_target(*t, F::from_noncanonical_u64(*v)).unwrap(); }
    let res = std::panic::catch_unwind(std::panic::AssertUnwindSafe(|| data.prove(pw)));
    match res {
        Ok(Ok(proof)) => {
            let pis: Vec<u64> = proof.public_inputs.iter().map(|f| f.to_canonical_u64()).collect();
            let ok = data.verify(proof).is_ok();
            json!({"accepted": ok, "public_inputs": pis})
        }
        Ok(Err(e)) => json!({"accepted": false, "error": format!("{e}")}),
        Err(_) => json!({"accepted": false, "error": "prover panicked (unsatisfiable witness)"}),
    }
}

/// {"leaves":[[21 u64]..]}: real ProofWithPublicInputs objects (proofs of the fake leaf circuit carrying these public
/// inputs) handed to the REAL commit-time compatibility preflight.
fn pb_preflight(spec: &Value) -> Value {
    let leaves: Vec<Vec<u64>> = spec["leaves"].as_array().unwrap().iter().map(u64s).collect();
    let (fake, targets) = test_helpers::fake_leaf::build_fake_leaf_circuit();
    let mut proofs = vec![];
    for l in &leaves {
        let mut pis = [F::ZERO; 21];
        for (k, v) in l.iter().enumerate() { pis[k] = F::from_noncanonical_u64(*v); }
        proofs.push(test_helpers::fake_leaf::prove_fake_leaf(&fake, &targets, pis));
    }
    match qp_wormhole_aggregator::private_batch::prover::lib::verif_ensure_leaf_batch_compatible(&proofs) {
        Ok(()) => json!({"accepted": true}),
        Err(e) => json!({"accepted": false, "error": format!("{e}")}),
    }
}

/// C28 counterexample replay: build a real plonky2 CircuitConfig with the given fields and ask the REAL validate_circuit_config
fn cfg_policy(spec: &Value) -> Value {
    let g = |k: &str| spec[k].as_u64().unwrap() as usize;
    let mut c = plonky2::plonk::circuit_data::CircuitConfig::standard_recursion_config();
    c.num_wires = g("num_wires"); c.num_routed_wires = g("num_routed_wires"); c.security_bits = g("security_bits");
    c.num_challenges = g("num_challenges"); c.max_quotient_degree_factor = g("max_quotient_degree_factor");
    c.fri_config.rate_bits = g("rate_bits"); c.fri_config.cap_height = g("cap_height"); c.fri_config.num_query_rounds = g("num_query_rounds");
    let policy = c.num_challenges > 0 && c.security_bits > 0 && c.fri_config.num_query_rounds > 0 && c.num_wires >= 135
        && 37 <= c.num_routed_wires && c.num_routed_wires <= c.num_wires && c.max_quotient_degree_factor >= 7
        && c.fri_config.rate_bits <= 8 && c.fri_config.cap_height <= 8 && c.max_quotient_degree_factor <= (1usize << c.fri_config.rate_bits);
    match std::panic::catch_unwind(|| zk_circuits_common::circuit::validate_circuit_config(&c).is_ok()) {
        Ok(a) => json!({"accepted": a, "policy": policy, "panicked": false}),
        Err(_) => json!({"accepted": false, "policy": policy, "panicked": true}),
    }
}

/// C29 counterexample replay: the REAL validate_proof_count
fn proof_count(spec: &Value) -> Value {
    let n = spec["count"].as_u64().unwrap() as usize;
    match std::panic::catch_unwind(|| qp_wormhole_inputs::validate_proof_count(n, "n").is_ok()) {
        Ok(a) => json!({"accepted": a, "policy": 1 <= n && n <= 64, "panicked": false}),
        Err(_) => json!({"accepted": false, "policy": 1 <= n && n <= 64, "panicked": true}),
    }
}

fn main() {
    let args: Vec<String> = std::env::args().collect();
    if args.len() < 3 { eprintln!("usage: vreplay <kind> <file.json>"); std::process::exit(2); }
    let spec: Value = serde_json::from_str(&std::fs::read_to_string(&args[2]).expect("read spec")).expect("json");
    let out = match args[1].as_str() {
        "pb-wrapper" => pb_wrapper(&spec),
        "pub-wrapper" => pub_wrapper(&spec),
        "pb-preflight" => pb_preflight(&spec),
        "cfg-policy" => cfg_policy(&spec),
        "proof-count" => proof_count(&spec),
        k => { eprintln!("unknown kind {k}"); std::process::exit(2); }
    };
    println!("{}", out);
}
